#!/venv/bin/python
"""Re-run, for every adopted seeded change under /verif/seeded/, the checks that caught it when it was adopted.
   tools/check_seeded_all.py [--budget S] [--only substring]      exit 0 iff every change is still caught by at least one check"""
import argparse, glob, json, os, subprocess, sys
VERIF = os.path.dirname(os.path.dirname(os.path.abspath(__file__)))
ap = argparse.ArgumentParser(); ap.add_argument('--budget', default='25'); ap.add_argument('--only', default=None)
a = ap.parse_args()
bad = 0; out = []
for mp in sorted(glob.glob(os.path.join(VERIF, 'seeded', '*', 'meta.json'))):
    m = json.load(open(mp))
    if a.only and a.only not in m['id']:
        continue
    checks = [k for k, v in (m['checks_run']['result'] or {}).items() if v['verdict'] == 'caught'] or [m['breaks_property']]
    r = subprocess.run([os.path.join(VERIF, 'tools', 'try_seeded.py'), os.path.join(os.path.dirname(mp), 'patch.diff'), ','.join(checks),
                        '--budget', a.budget], capture_output=True, text=True)
    res = None
    for line in r.stdout.splitlines():
        if line.startswith('RESULT '):
            res = json.loads(line[7:])
    verdicts = {k: v['verdict'] for k, v in (res or {'checks': {}})['checks'].items()}
    ok = any(v == 'caught' for v in verdicts.values())
    bad += not ok
    out.append({'id': m['id'], 'verdicts': verdicts})
    print('%-54s %s' % (m['id'], verdicts)); sys.stdout.flush()
json.dump({'budget_s': a.budget, 'changes': out, 'caught': len(out) - bad, 'total': len(out)},
          open(os.path.join(VERIF, 'evidence', 'seeded_changes.json'), 'w'), indent=1)
print('caught %d / %d' % (len(out) - bad, len(out)))
sys.exit(1 if bad else 0)
