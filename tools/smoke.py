#!/venv/bin/python
"""in-process smoke run: tools/smoke.py Cxx lo hi"""
import sys, time, os, collections, warnings
warnings.filterwarnings('ignore')
sys.path.insert(0, os.path.dirname(os.path.dirname(os.path.abspath(__file__))))
from artapsim.decisions import Decisions
from artapsim import core, driver, seams
seams.install()      # before any property module imports artap (VERIF_REPO must win over the editable install)
pid = sys.argv[1].upper(); mod = driver.load(pid)
t = time.time(); out = collections.Counter(); sig = set(); st = collections.Counter(); pr = collections.Counter(); shown = 0
for s in range(int(sys.argv[2]), int(sys.argv[3])):
    r = core.guarded(pid, mod.run_one, Decisions(s), None)
    out[r['outcome']] += 1
    if r['nontrivial']: sig.add(r['sig'])
    for k, v in r['stats'].items(): st[k] += v
    for k, v in r['probes'].items(): pr[k] += v
    if r['outcome'] not in ('ok', 'sut_abort') and shown < 4:
        shown += 1
        print(s, r['outcome'], r['violations'][:2], r.get('traceback'), r['sample'])
print(dict(out), 'distinct', len(sig), 'stats', dict(st), 'probes', dict(pr), round(time.time() - t, 2), 's')
