#!/venv/bin/python
"""Regenerates /verif/MANIFEST.json from the table below (one place to edit)."""
import json
import os
import sys

HERE = os.path.dirname(os.path.dirname(os.path.abspath(__file__)))

TECH = 'deterministic simulation with fault injection'

CHECKS = {
    'C07': dict(
        level='exploration', ref='DESIGN.md 6 (C07), 4.2-4.4',
        text='Seeded search over worker interleavings (baton-passed threads, six scheduling policies, stalls, SQLite '
             'busy time-outs in virtual time) of the real Evaluator/Job/SqliteDataStore code; every run is compared '
             'with a serial twin run of the same code, with the objective call log and with a read-mode view of the '
             'database at the moment evaluate() returns; whole NSGA-II / eps-MOEA / swarm / sweep runs with 2-4 workers are compared '
             'with the same run executed serially; an abort family checks the designs other workers finished when one design '
             'propagates an exception; batch histories may continue in a later session that re-opens the store file (designs read back evaluated must not reach the objective in either mode). Sampling of schedules, not proof; interleavings are quantified at objective-call and '
             'SQL-statement granularity (what the property states) and, in a sixth of the runs, at source-line granularity '
             '(sys.monitoring LINE events inside the library). A foreign process may hold the database lock while the workers write, the caller may sit inside its own joblib backend context, locks the library creates are simulated (a self-deadlock is a verdict, not a hang). Found defects F5 and F7 on the pinned tree (fixed in /repo).',
        note='joblib replaced by a stub with the same dispatch/memory/exception semantics; pre-emption only at yield '
             'points; busy handler modelled (5 s virtual) over the real libsqlite3; objective failures off.',
        technique=TECH + ': seeded schedule search (random/PCT/rr/starve) + stall and busy-timeout injection, '
                  'differential oracle against serial twin'),
}

CHECKS['C05'] = dict(
    level='exploration', ref='DESIGN.md 6 (C05)',
    text='Seeded generation of operation histories (fresh / mixed / repeated batches, scalar queries, sweeps over four '
         'generators, real SciPy and NLopt optimisers through the scalar bridge), serial and under simulated worker '
         'schedules, optionally with an SQLite store whose lock a simulated foreign process holds during a write and which a later session re-opens (designs read back from it are evaluated designs), optionally after an unrelated decoy problem was used in the same session; a shadow model fed from the objective\'s own call log decides call counts, state, cost/vector '
         'pairing, sign and rounding of the signed costs and the feasibility marker order after every operation. '
         'Sampling of histories, not proof. Found defect F7 on the pinned tree (fixed in /repo).',
    note='objective owned by the harness and recomputed by the oracle; failures off; default evaluator only; joblib stubbed.',
    technique=TECH + ': seeded operation histories + schedule search, shadow-model oracle over the call log')
CHECKS['C06'] = dict(
    level='fault_enumeration', ref='DESIGN.md 6 (C06)',
    text='The fault space of one design (187 outcome patterns of at most five attempts: transient Timeout/Runtime failures, '
         'success, four kinds of non-transient exception incl. a non-timeout OSError) is enumerated completely, serially and with two simulated '
         'workers; batches of 2-8 designs and whole NSGA-II / eps-MOEA / swarm runs then sample one pattern per design '
         'under seeded schedules. The oracle derives the exact expected attempts, failed list, re-sampling, final '
         'costs and the exception the caller must see from the plan.',
    note='complete for single-design patterns, sampled for combinations across designs and schedules; PRNG extremes off; '
         'a replacement equal to the failed vector is accepted only for coarse-precision parameters when new draws were consumed.',
    technique=TECH + ': exhaustive enumeration of per-design failure patterns + seeded sampling of pattern combinations and schedules')

CHECKS['C10'] = dict(
    level='exploration', ref='DESIGN.md 6 (C10)',
    text='Seeded histories of sync_individual / sync_all / mutation / read-mode view over harness-built individuals '
         '(special floats incl. +-inf, denormals and -0.0, numpy scalars, nested custom data, references between '
         'individuals, repeated ids) and complete runs of the eight synchronising algorithms against a real SQLite file; '
         'a reference dict id -> last synchronised fields, built from the attributes and not through artap\'s own '
         'to_dict, is compared bit-exactly through ProblemViewDataStore and raw row counts after the history and at '
         'seeded intermediate points; a simulated foreign process may hold the database lock across a synchronisation, and the '
         'file may first hold another problem and be opened with mode="rewrite", may be re-opened by a later session (optionally a new interpreter whose id counter starts again), and a fifth of the histories use the single-connection store (thread_safe=False); an id that the library itself hands out twice after a re-opening is a lost row. Sampling of histories, not proof. Found defect F8 on the pinned tree (fixed in /repo).',
    note='single writer (C07 covers concurrent writers); float bounds/costs (O1); NaN not generated; real libsqlite3 on tmpfs.',
    technique=TECH + ': seeded operation histories against the real store, reference-model oracle through a read-mode view')
CHECKS['C11'] = dict(
    level='fault_enumeration', ref='DESIGN.md 6 (C11), 4.7',
    text='Real process death: each crash point re-executes a seeded trace (store history, batch, NSGA-II / eps-MOEA / '
         'OMOPSO / sweep run; serial and 2-3 simulated workers; serial traces may meet a foreign lock holder that outlasts '
         'the busy time-out, so the retry path runs before the crash) in a forked child that _exits at the k-th Python-level '
         'event or - via an LD_PRELOAD shim - at entry of the k-th file-mutating libc call on the store directory '
         '(torn page-crossing writes in the thorough tier); a fresh child then opens the directory with a read-mode '
         'view. All points of each listed trace are enumerated (T measured by un-armed runs), so for those traces the '
         'crash-point quantifier is covered completely; traces themselves are sampled.',
    note='process death only (page cache survives); between two mutating calls durable state is constant, acknowledgements '
         'travel through a pipe; shim falls back to event-level points if it cannot be loaded (reported in evidence).',
    technique=TECH + ': exhaustive crash-point enumeration per seeded trace (fork + _exit, LD_PRELOAD syscall counter), '
              'acknowledgement-vs-durable-state oracle in a fresh process')

INRUN = ('This property is a pure function of its arguments; simulation cannot decide its universally quantified form. What is '
         'claimed is the weaker in-run invariant: it held on every call the real optimisers made in every explored run '
         '(seeded configurations, PRNG seeds, failure plans, extreme legal draws), with reach counters in the evidence that '
         'show which part of the quantifier was touched. Enumeration or proof would decide it far better; this is stated '
         'rather than switching technique. ')
CHECKS['C01'] = dict(
    level='exploration', ref='DESIGN.md 6 (C01), 7',
    text=INRUN + 'Wrappers on both comparators compare every verdict with the textbook constrained-dominance verdict, re-call the '
         'unwrapped comparator with swapped / identical arguments (antisymmetry, irreflexivity, eps tie-break) and sample triples of '
         'every sorted pool for transitivity.',
    note='only argument pairs that arise in runs (m = 1..4, True/False markers); real-valued violation degrees are not reachable.',
    technique=TECH + ': in-run invariant monitor over seeded whole-algorithm runs (weaker than the stated quantifier)')
CHECKS['C02'] = dict(
    level='exploration', ref='DESIGN.md 6 (C02), 7',
    text=INRUN + 'After every fast_nondominated_sorting call of NSGA-II / OMOPSO runs the front numbers are recomputed with the naive '
         'O(n^2) definition; each pool is additionally re-sorted in reversed and seeded-shuffled order on copies.',
    note='only pools that arise in runs and their reorderings; reference = textbook constrained dominance.',
    technique=TECH + ': in-run invariant monitor over seeded whole-algorithm runs (weaker than the stated quantifier)')
CHECKS['C03'] = dict(
    level='exploration', ref='DESIGN.md 6 (C03), 7',
    text=INRUN + 'Order-free oracles after every nondominated_truncate, crowding_distance and TournamentSelector.select call; the PRNG '
         'seam tells the oracle which two candidates the tournament drew.',
    note='only pools that arise in runs; fronts with aliased feature dicts (PSOGA, O4) skipped and counted.',
    technique=TECH + ': in-run invariant monitor over seeded whole-algorithm runs, PRNG seam exposes tournament draws')
CHECKS['C20'] = dict(
    level='exploration', ref='DESIGN.md 6 (C20), 7, 8 (F1)',
    text=INRUN + 'Wrapper on Individual.__eq__ (definition, symmetry, hash agreement), on duplicate rejection inside generate(), on '
         'list removal in pop_acceptance / Archive.remove and on hash agreement of identical designs entering the set-based '
         'de-duplication. Found defect F1 on the pinned tree (fixed in /repo).',
    note='only vector pairs that arise in runs: identical, completely different and - through SBX/PM - sharing any subset of coordinates.',
    technique=TECH + ': in-run invariant monitor over seeded whole-algorithm runs (weaker than the stated quantifier)')
CHECKS['C04'] = dict(
    level='exploration', ref='DESIGN.md 6 (C04)',
    text='Seeded offer histories (1-16 offers on a dyadic grid, feasibility markers, 1-3 objectives) delivered to fresh archives in '
         'original, permuted and permuted-with-duplicates order (fault kinds reorder / duplicate) for both comparators; after every '
         'add the content is compared with the Pareto-minimal set of everything offered, the return value with membership, the '
         'three final contents with each other, and truncate with the top-k. The archives and leader sets of eps-MOEA / OMOPSO / '
         'SMPSO / PSOGA runs are followed with the clauses that stay exact on continuous costs. Sampling of histories.',
    note='grid-valued offers for exact-content clauses (eps scaling can collapse values one ulp apart); reference = textbook dominance.',
    technique=TECH + ': seeded offer histories with reordered / duplicated delivery, reference-set oracle after every step')
CHECKS['C08'] = dict(
    level='exploration', ref='DESIGN.md 6 (C08)',
    text='Every vector that reaches the objective in seeded NSGA-II / eps-MOEA / OMOPSO / SMPSO / PSOGA runs (incl. designs re-rolled '
         'after injected failures) and every return value of SBX / PM / uniform / non-uniform mutation and the generators is judged '
         'against the box; the PRNG seam injects extreme legal draws (0, 1-2^-53, 1/2 +- ulp, end points) at seeded sites, boxes are '
         'negative, 1e-6 wide, +-1e6 wide or mixed, with optional coarse precision. A direct family calls operators and DoE '
         'generators on parents on bounds / coincident / one ulp apart. Sampling.',
    note='tolerance 1e-12 + 4 ulp (+ half the declared precision); |bound| <= 1e6.',
    technique=TECH + ': seeded runs with PRNG-extreme injection and failure re-rolls, box oracle on every evaluated vector')
CHECKS['C09'] = dict(
    level='exploration', ref='DESIGN.md 6 (C09)',
    text='Complete NSGA-II / eps-MOEA / OMOPSO / SMPSO runs over seeded configurations, PRNG seeds, transient-failure plans and '
         'extreme draws; the population ledger is rebuilt from Problem.populations() and the objective call log (budget, tags, '
         'generation sizes, repeats, elitism by textbook dominance, single-objective best) and every eps-MOEA acceptance step is '
         'judged in-run. A run that raises without five consecutive planned failures is a violation; a sixth of the runs are second runs of an algorithm object whose first run died of five time-outs. Sampling.',
    note='parameters without coarse precision; PRNG extremes only in failure-free runs; PSOGA outside the property.',
    technique=TECH + ': seeded runs x failure plans, ledger oracle rebuilt from the call log')
CHECKS['C14'] = dict(
    level='exploration', ref='DESIGN.md 6 (C14), 8 (F2)',
    text='Histories of 1-5 batches through one WorstCaseEvaluator / GradientEvaluator object (serial and simulated workers, optional '
         're-submission) and the batch sequences of NSGA-II / eps-MOEA runs constructed with these evaluator types; after every '
         'batch the neighbour set, neighbour costs, sensitivity sum, cost-vector length, gradient quotient and call budget are '
         'checked for all designs ever handed to the evaluator; designs may fail transiently, have integer coordinates or be '
         're-submitted, earlier vectors are re-visited by new design objects under an objective that hands out the same (memoised) list again, OMOPSO / SMPSO runs get the evaluator set on the object. Found defects F2 and F6 (fixed in /repo). Sampling.',
    note='failures off (O2); NSGA-II parent copies skipped; sensitivity to 1e-12, gradient to 1e-9 relative.',
    technique=TECH + ': seeded batch histories, history oracle over all earlier designs after every batch')
CHECKS['C17'] = dict(
    level='exploration', ref='DESIGN.md 6 (C17), 8 (F3)',
    text='A harness ledger of what was recorded (after complete runs incl. failure re-rolls, optionally read back from SQLite through '
         'a read-mode view, and after generated recordings with unsorted tags / duplicates / maximised goals) is compared with every '
         'Results query; gd and epsilon_add identities are checked on the recorded fronts (in-run invariant for the indicator '
         'clauses); one Results object is queried before and after the history grows or changes in place. Found defects F3 and F6 '
         '(fixed in /repo). Sampling.',
    note='indicator clauses only on point sets that arise from runs and their shifts; order among equal sort keys is free.',
    technique=TECH + ': seeded recorded histories (runs, store read-back, direct recordings), ledger oracle over all queries')
CHECKS['C18'] = dict(
    level='exploration', ref='DESIGN.md 6 (C18)',
    text='Per-particle before/after oracles on update_particle_best (sequential semantics), update_velocity, update_position and '
         'update_global_best in every generation of seeded OMOPSO / SMPSO / PSOGA runs (failure plans, extreme draws, all boxes), plus '
         'direct histories feeding the same public methods positions and velocities up to 1e3 ranges outside the box. Sampling.',
    note='PSOGA shares feature dicts between particles (O4): judged one particle at a time; exact float equality for the position rule.',
    technique=TECH + ': seeded runs and direct histories with before/after oracles per particle and generation')
CHECKS['C19'] = dict(
    level='exploration', ref='DESIGN.md 6 (C19)',
    text='Seeded request histories (1-40 requests) against SurrogateModelEval, SurrogateModelPredict (logging train) and '
         'SurrogateModelScikit (stub regressor) with train_step in {-1,1,2,3,5,10}, initially trained or not, hook present or absent, '
         'hook accept/decline (and the kind of value it returns) per request from the fault stream; also requests produced by real '
         'Job.evaluate in batches (simple, worst-case and gradient evaluator) and runs, and by 2-3 simulated workers (schedule-independent accounting only); surrogates may start with pre-loaded training pairs. A reference model '
         'of counters / training lists / trained flag / train schedule is compared after every request and again after each batch. Sampling.',
    note='sequential requests (O3); regressors stubbed.',
    technique=TECH + ': seeded request histories with injected hook decisions, reference-model oracle after every request')

NOT_BUILT = 'claimed in DESIGN.md; its check is not part of this commit yet'
NA = {
    'C12': 'pure single-call functions (bounds, N, one PRNG vector) -> matrix; nothing is scheduled, retried, shared or '
           'persisted, so there is no schedule, fault, crash point or history for a simulator to sample (DESIGN.md 7)',
    'C13': 'deterministic pure functions of factor counts and level lists; no state, randomness, time or I/O at all '
           '(DESIGN.md 7)',
    'C15': 'pure arithmetic on one point; in the simulation the objective is the environment owned by the harness, not '
           'the system under test; needs enumeration / interval reasoning / proof, not simulation (DESIGN.md 7)',
    'C16': 'algebraic identities of a pure function of one point; no schedule, fault or history involved (DESIGN.md 7)',
}
ALL = ['C%02d' % i for i in range(1, 21)]


def main():
    checks = []
    for pid in sorted(CHECKS):
        c = CHECKS[pid]
        checks.append({
            'property_id': pid,
            'quick_cmd': './check %s --tier quick' % pid,
            'thorough_cmd': './check %s --tier thorough' % pid,
            'evidence_file': 'evidence/%s.json' % pid,
            'replay_cmd_template': './check %s --replay {path}' % pid,
            'engine': 'artapsim',
            'level_claimed': {'category': c['level'], 'text': c['text'], 'design_ref': c['ref']},
            'level_note': c['note'],
            'technique': c['technique'],
        })
    na = []
    for pid in ALL:
        if pid in CHECKS:
            continue
        na.append({'property_id': pid, 'reason': NA.get(pid, NOT_BUILT)})
    man = {
        'version': 1,
        'setup_cmd': './setup.sh',
        'hooks': {
            'guard': 'ARTAP_VERIF',
            'enable': 'no source hooks exist: every seam is a module attribute patched from the harness after import '
                      '(artapsim/seams.py); ARTAP_VERIF is unused',
            'baseline_off_cmd': 'cd /repo && /venv/bin/python -m pytest -ra -q -p no:cacheprovider --timeout=900 '
                                '--continue-on-collection-errors',
            'source_commits': [],
            'add_only': True,
        },
        'engines': [{
            'name': 'artapsim',
            'path': 'artapsim/',
            'serves_properties': sorted(CHECKS),
            'kind_free_text': 'deterministic simulator for artap: keyed counter-based decisions (one seed = one run), '
                              'baton-passed worker threads under a seeded scheduler, virtual clock, SQLite lock/busy '
                              'model over the real libsqlite3, objective failure plans, PRNG seam with extreme legal '
                              'draws, process-death injection (fork + LD_PRELOAD syscall shim), reference models as '
                              'oracles, delta-debugging minimiser, replay files confirmed in a fresh interpreter',
        }],
        'checks': checks,
        'not_applicable': na,
        'notes': 'exit 0 = held on everything explored, 1 = VIOLATION line, 2 = harness error (no verdict). '
                 'VERIF_SEED / VERIF_TIER / VERIF_BUDGET_S / VERIF_PROCS are honoured. artap is imported from /repo '
                 '(VERIF_REPO overrides, used by the sensitivity self-test only).',
    }
    with open(os.path.join(HERE, 'MANIFEST.json'), 'w') as f:
        json.dump(man, f, indent=1)
        f.write('\n')
    try:
        import jsonschema
        jsonschema.validate(man, json.load(open('/root/.vp/MANIFEST.schema.json')))
        print('MANIFEST.json valid:', len(checks), 'checks,', len(na), 'not claimed')
    except ImportError:
        print('written (jsonschema not available to validate)')


if __name__ == '__main__':
    sys.exit(main())
