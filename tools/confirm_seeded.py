#!/venv/bin/python
"""Confirm a candidate seeded change independently of whoever wrote it:

  tools/confirm_seeded.py <patch.diff> <demo.py> [--skip-tests]

In a scratch git worktree of /repo (under /tmp, removed afterwards): the patch applies; the repository's test-suite still
passes every test of BASELINE.stable_pass; the demonstration exits 1 with the change and 0 without it.
Prints a JSON line `CONFIRM {...}` and exits 0 only if all three hold."""
import argparse
import json
import os
import shutil
import subprocess
import sys
import xml.etree.ElementTree as ET


def run_demo(demo, src):
    env = dict(os.environ, ARTAP_SRC=src, PYTHONPATH=src)
    p = subprocess.run(['/venv/bin/python', '-W', 'ignore', os.path.abspath(demo)], env=env, capture_output=True, text=True,
                       timeout=900, cwd='/tmp')
    return p.returncode, (p.stdout.strip().splitlines() or [''])[-1][:200]


def main():
    ap = argparse.ArgumentParser()
    ap.add_argument('patch')
    ap.add_argument('demo')
    ap.add_argument('--skip-tests', action='store_true')
    a = ap.parse_args()
    wt = '/tmp/confirm-wt-%d' % os.getpid()
    res = {'patch': a.patch}
    try:
        subprocess.run(['git', '-C', '/repo', 'worktree', 'add', '--detach', '-q', wt, 'HEAD'], check=True)
        p = subprocess.run(['git', '-C', wt, 'apply', '--whitespace=nowarn', os.path.abspath(a.patch)], capture_output=True, text=True)
        res['applies'] = p.returncode == 0
        if not res['applies']:
            res['apply_error'] = p.stderr[-300:]
            print('CONFIRM ' + json.dumps(res))
            return 1
        res['files'] = subprocess.run(['git', '-C', wt, 'diff', '--stat'], capture_output=True, text=True).stdout.strip().splitlines()[-1:]
        rc1, out1 = run_demo(a.demo, wt)
        rc0, out0 = run_demo(a.demo, '/repo')
        res.update(demo_with_change=rc1, demo_clean=rc0, demo_msg=out1)
        ok = rc1 == 1 and rc0 == 0
        if not a.skip_tests:
            junit = wt + '-junit.xml'
            env = dict(os.environ, PYTHONPATH=wt)
            t = subprocess.run(['/venv/bin/python', '-m', 'pytest', '-q', '-p', 'no:cacheprovider', '--timeout=900',
                                '--continue-on-collection-errors', '--junitxml=' + junit, 'artap/tests'], cwd=wt, env=env,
                               capture_output=True, text=True, timeout=3000)
            passed = set()
            for tc in ET.parse(junit).iter('testcase'):
                if not any(c.tag in ('failure', 'error', 'skipped') for c in tc):
                    passed.add(tc.get('classname') + '::' + tc.get('name'))
            base = set(json.load(open('/root/.vp/BASELINE.json'))['stable_pass'])
            missing = sorted(base - passed)
            res.update(tests_summary=t.stdout.strip().splitlines()[-1][:120], baseline_missing=missing[:10])
            os.remove(junit)
            # randomised tests (unseeded optimisation runs with a tolerance) can miss their threshold: re-run the missing
            # ones alone, up to three times; a test that passes with the change applied is not broken by it
            still = []
            for name in missing:
                cls, _, fn = name.rpartition('::')
                mod, _, klass = cls.rpartition('.')
                node = mod.replace('.', '/') + '.py::' + klass + '::' + fn
                passed_once = False
                for _ in range(3):
                    rr = subprocess.run(['/venv/bin/python', '-m', 'pytest', '-q', '-p', 'no:cacheprovider', '--timeout=900', node],
                                        cwd=wt, env=env, capture_output=True, text=True, timeout=1800)
                    if rr.returncode == 0:
                        passed_once = True
                        break
                if not passed_once:
                    still.append(name)
            res['baseline_missing_after_rerun'] = still
            if missing and not still:
                res['flaky_rerun_note'] = 'missing tests passed when re-run alone with the change applied (randomised tests)'
            ok = ok and not still
        res['confirmed'] = ok
        print('CONFIRM ' + json.dumps(res))
        return 0 if ok else 1
    finally:
        subprocess.run(['git', '-C', '/repo', 'worktree', 'remove', '--force', wt], capture_output=True)
        shutil.rmtree(wt, ignore_errors=True)


if __name__ == '__main__':
    sys.exit(main())
