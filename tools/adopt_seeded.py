#!/venv/bin/python
"""Adopt a confirmed seeded change into /verif/seeded/<id>/:
   tools/adopt_seeded.py <Cxx> <k> <id> --checks Cxx[,Cyy] [--budget S] [--skip-tests]
reads /tmp/wt/out/<Cxx>/change<k>.diff, demo<k>.py, notes<k>.md; confirms (patch applies, baseline tests pass, demo 1/0);
runs the named checks against a patched scratch copy; writes patch.diff, demo.py, meta.json."""
import argparse
import json
import os
import shutil
import subprocess
import sys

VERIF = os.path.dirname(os.path.dirname(os.path.abspath(__file__)))


def last_json(out, tag):
    for line in reversed(out.splitlines()):
        if line.startswith(tag + ' '):
            return json.loads(line[len(tag) + 1:])
    return None


def main():
    ap = argparse.ArgumentParser()
    ap.add_argument('prop')
    ap.add_argument('k')
    ap.add_argument('id')
    ap.add_argument('--checks', required=True)
    ap.add_argument('--budget', default=None)
    ap.add_argument('--skip-tests', action='store_true')
    ap.add_argument('--src', default='/tmp/wt/out')
    a = ap.parse_args()
    src = os.path.join(a.src, a.prop)
    patch = os.path.join(src, 'change%s.diff' % a.k)
    demo = os.path.join(src, 'demo%s.py' % a.k)
    notes = os.path.join(src, 'notes%s.md' % a.k)
    cmd = [os.path.join(VERIF, 'tools', 'confirm_seeded.py'), patch, demo] + (['--skip-tests'] if a.skip_tests else [])
    c = subprocess.run(cmd, capture_output=True, text=True)
    conf = last_json(c.stdout, 'CONFIRM')
    print('confirm:', json.dumps(conf))
    if not conf or not conf.get('confirmed'):
        print('NOT CONFIRMED - not adopted')
        return 1
    cmd = [os.path.join(VERIF, 'tools', 'try_seeded.py'), patch, a.checks] + (['--budget', a.budget] if a.budget else [])
    t = subprocess.run(cmd, capture_output=True, text=True)
    res = last_json(t.stdout, 'RESULT')
    print('checks:', json.dumps(res['checks'] if res else None))
    d = os.path.join(VERIF, 'seeded', a.id)
    os.makedirs(d, exist_ok=True)
    shutil.copy(patch, os.path.join(d, 'patch.diff'))
    shutil.copy(demo, os.path.join(d, 'demo.py'))
    meta = {
        'id': a.id,
        'breaks_property': a.prop,
        'written_by': 'independent sub-agent given only the property text and a scratch worktree of /repo (nothing from /verif)',
        'author_notes': open(notes).read() if os.path.exists(notes) else None,
        'confirmed_by_me': {
            'how': 'tools/confirm_seeded.py in a fresh scratch worktree of /repo (removed afterwards): git apply; full pytest suite '
                   'compared with BASELINE.stable_pass; demo.py with ARTAP_SRC=<patched worktree> (want exit 1) and ARTAP_SRC=/repo (want exit 0)',
            'result': conf,
        },
        'checks_run': {
            'how': 'tools/try_seeded.py: patched scratch copy of /repo via VERIF_REPO, ./check <id> --tier quick' +
                   (' --budget %s' % a.budget if a.budget else ''),
            'result': res['checks'] if res else None,
        },
    }
    with open(os.path.join(d, 'meta.json'), 'w') as f:
        json.dump(meta, f, indent=1)
    print('adopted into', d)
    return 0


if __name__ == '__main__':
    sys.exit(main())
