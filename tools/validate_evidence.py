#!/usr/bin/env python3
import json, sys, glob, os
import jsonschema
S = json.load(open('/root/.vp/EVIDENCE.schema.json'))
bad = 0
for p in sorted(glob.glob(os.path.join(os.path.dirname(os.path.dirname(os.path.abspath(__file__))), 'evidence', 'C*.json'))):
    try:
        e = json.load(open(p)); jsonschema.validate(e, S)
        c = e['coverage']
        print(os.path.basename(p), 'ok', e['tier'], 'evals', c.get('evaluations'), 'distinct', c.get('distinct_nontrivial'), 'wall', e['wall_s'], 'probes0', c.get('probes_at_zero'))
    except Exception as ex:
        bad += 1; print(os.path.basename(p), 'INVALID', str(ex)[:300])
sys.exit(1 if bad else 0)
