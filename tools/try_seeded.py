#!/venv/bin/python
"""Run registered checks against a seeded breaking change without touching /repo.

  tools/try_seeded.py <patch.diff> <Cxx>[,Cyy...] [--demo demo.py] [--budget S] [--tier quick]

A scratch copy of /repo's working tree is made under $VERIF_SCRATCH, the patch is applied with `git apply`, the
demonstration (if given) is run against the patched copy (expected exit 1) and against /repo (expected exit 0), and each
named check is run with VERIF_REPO pointing at the patched copy (expected exit 1 + VIOLATION line).  Evidence and replay
files of these runs go to the scratch directory, which is removed afterwards.
"""
import argparse
import json
import os
import shutil
import subprocess
import sys
import time

VERIF = os.path.dirname(os.path.dirname(os.path.abspath(__file__)))


def main():
    ap = argparse.ArgumentParser()
    ap.add_argument('patch')
    ap.add_argument('props')
    ap.add_argument('--demo', default=None)
    ap.add_argument('--budget', default=None)
    ap.add_argument('--tier', default='quick')
    ap.add_argument('--keep', action='store_true')
    a = ap.parse_args()
    base = os.path.join(os.environ.get('VERIF_SCRATCH', '/dev/shm'), 'artap-seeded-%d' % os.getpid())
    shutil.rmtree(base, ignore_errors=True)
    os.makedirs(base)
    repo = os.path.join(base, 'repo')
    out = {'patch': a.patch, 'checks': {}}
    try:
        shutil.copytree('/repo', repo, ignore=shutil.ignore_patterns('.git', '__pycache__', '*.pyc'))
        subprocess.run(['git', 'init', '-q'], cwd=repo, check=True)
        p = subprocess.run(['git', 'apply', '--whitespace=nowarn', os.path.abspath(a.patch)], cwd=repo, capture_output=True, text=True)
        if p.returncode != 0:
            print('PATCH DOES NOT APPLY:', p.stderr[-500:])
            return 3
        if a.demo:
            env = dict(os.environ, ARTAP_SRC=repo, PYTHONPATH=repo)
            d1 = subprocess.run(['/venv/bin/python', '-W', 'ignore', os.path.abspath(a.demo)], env=env, capture_output=True, text=True,
                                timeout=600, cwd=base)
            env = dict(os.environ, ARTAP_SRC='/repo', PYTHONPATH='/repo')
            d0 = subprocess.run(['/venv/bin/python', '-W', 'ignore', os.path.abspath(a.demo)], env=env, capture_output=True, text=True,
                                timeout=600, cwd=base)
            out['demo_with_change_exit'] = d1.returncode
            out['demo_clean_exit'] = d0.returncode
            print('demo: with change exit %d (want 1), clean exit %d (want 0)   %s' % (d1.returncode, d0.returncode,
                                                                                  (d1.stdout.strip().splitlines() or [''])[-1][:160]))
        for pid in a.props.split(','):
            env = dict(os.environ, VERIF_REPO=repo, VERIF_EVIDENCE_DIR=os.path.join(base, 'evidence'),
                       VERIF_REPLAY_DIR=os.path.join(base, 'replays'))
            cmd = [os.path.join(VERIF, 'check'), pid, '--tier', a.tier]
            if a.budget:
                cmd += ['--budget', a.budget]
            t = time.time()
            r = subprocess.run(cmd, env=env, capture_output=True, text=True)
            dt = time.time() - t
            vl = [l for l in r.stdout.splitlines() if l.startswith('VIOLATION')]
            det = [l.strip() for l in r.stdout.splitlines() if l.strip().startswith('clause=')]
            verdict = 'caught' if (r.returncode == 1 and vl) else ('MISSED' if r.returncode == 0 else 'ERROR rc=%d' % r.returncode)
            out['checks'][pid] = {'verdict': verdict, 'seconds': round(dt, 1), 'detail': (det[0] if det else r.stdout[-400:])[:500]}
            print('%s: %s in %.1fs  %s' % (pid, verdict, dt, (det[0] if det else r.stdout.strip()[-300:].replace('\n', ' | '))[:260]))
            if verdict.startswith('ERROR'):
                print(r.stdout[-1500:], r.stderr[-1500:])
        print('RESULT ' + json.dumps(out))
    finally:
        if not a.keep:
            shutil.rmtree(base, ignore_errors=True)
    return 0


if __name__ == '__main__':
    sys.exit(main())
