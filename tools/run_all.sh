#!/bin/sh
# runs every registered check once (tier from $1, default quick) and prints one line per property
cd "$(dirname "$0")/.."
TIER=${1:-quick}
rc=0
for p in $(/venv/bin/python -c "import json;print(' '.join(c['property_id'] for c in json.load(open('MANIFEST.json'))['checks']))"); do
  ./check $p --tier $TIER > /tmp/runall_$p.log 2>&1; r=$?
  echo "$p exit=$r $(tail -1 /tmp/runall_$p.log)"
  [ $r -ne 0 ] && rc=1
done
exit $rc
