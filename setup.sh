#!/bin/sh
# Offline setup: build the crash shim (C11) with the installed gcc and smoke-test the simulator.
set -e
HERE="$(cd "$(dirname "$0")" && pwd)"
cd "$HERE"
mkdir -p build evidence replays
if [ -f native/crashshim.c ]; then
  gcc -O2 -shared -fPIC -o build/crashshim.so native/crashshim.c -ldl
fi
/venv/bin/python -W ignore -c "
import sys; sys.path.insert(0, '$HERE')
from artapsim import seams; seams.install()
import artap; print('artap from', artap.__file__)
"
echo setup ok
