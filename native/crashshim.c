/* LD_PRELOAD shim for the C11 check: counts file-mutating calls on one directory and kills the process
 * (_exit(137), no handlers, no atexit) at entry of the k-th one.  Inert until verif_shim_arm() is called.
 * mode 0: die at entry of call k;  mode 1: if call k is a pwrite/write that crosses a 4 KiB boundary, write the
 * bytes up to that boundary first (a fatal signal can cut a buffered write at a page-cache page), then die. */
#define _GNU_SOURCE
#include <dlfcn.h>
#include <fcntl.h>
#include <stdarg.h>
#include <stdio.h>
#include <stdlib.h>
#include <string.h>
#include <sys/types.h>
#include <unistd.h>

static char g_dir[1024];
static size_t g_dirlen = 0;
static long g_at = -1, g_count = 0;
static int g_armed = 0, g_mode = 0;
static long g_kinds[8];

void verif_shim_arm(const char *dir, long at, int mode) {
    strncpy(g_dir, dir, sizeof(g_dir) - 1);
    g_dirlen = strlen(g_dir);
    g_at = at; g_count = 0; g_mode = mode; memset(g_kinds, 0, sizeof(g_kinds)); g_armed = 1;
}
long verif_shim_count(void) { return g_count; }
long verif_shim_kind(int i) { return (i >= 0 && i < 8) ? g_kinds[i] : -1; }
void verif_shim_disarm(void) { g_armed = 0; }
int verif_shim_present(void) { return 1; }

static int fd_match(int fd) {
    if (!g_armed) return 0;
    char p[64], b[1100];
    snprintf(p, sizeof p, "/proc/self/fd/%d", fd);
    ssize_t n = readlink(p, b, sizeof(b) - 1);
    if (n <= 0) return 0;
    b[n] = 0;
    return strncmp(b, g_dir, g_dirlen) == 0;
}
static int path_match(const char *p) { return g_armed && p && strncmp(p, g_dir, g_dirlen) == 0; }
/* returns 1 when the process must die at this call */
static int tick(int kind) { g_count++; g_kinds[kind]++; return g_at > 0 && g_count == g_at; }
static void die(void) { _exit(137); }

typedef ssize_t (*pwrite_t)(int, const void *, size_t, off_t);
typedef ssize_t (*pwrite64_t)(int, const void *, size_t, off64_t);
typedef ssize_t (*write_t)(int, const void *, size_t);

static void torn(int fd, const void *buf, size_t n, off64_t off, int have_off) {
    if (g_mode == 1 && n > 1) {
        off64_t o = have_off ? off : lseek64(fd, 0, SEEK_CUR);
        off64_t b = (o / 4096 + 1) * 4096;
        if (b < o + (off64_t)n) {
            size_t part = (size_t)(b - o);
            if (have_off) { pwrite64_t real = (pwrite64_t)dlsym(RTLD_NEXT, "pwrite64"); real(fd, buf, part, off); }
            else { write_t real = (write_t)dlsym(RTLD_NEXT, "write"); real(fd, buf, part); }
        }
    }
    die();
}

ssize_t pwrite64(int fd, const void *buf, size_t n, off64_t off) {
    static pwrite64_t real; if (!real) real = (pwrite64_t)dlsym(RTLD_NEXT, "pwrite64");
    if (fd_match(fd) && tick(0)) torn(fd, buf, n, off, 1);
    return real(fd, buf, n, off);
}
ssize_t pwrite(int fd, const void *buf, size_t n, off_t off) {
    static pwrite_t real; if (!real) real = (pwrite_t)dlsym(RTLD_NEXT, "pwrite");
    if (fd_match(fd) && tick(0)) torn(fd, buf, n, (off64_t)off, 1);
    return real(fd, buf, n, off);
}
ssize_t write(int fd, const void *buf, size_t n) {
    static write_t real; if (!real) real = (write_t)dlsym(RTLD_NEXT, "write");
    if (fd_match(fd) && tick(1)) torn(fd, buf, n, 0, 0);
    return real(fd, buf, n);
}
int unlink(const char *p) {
    static int (*real)(const char *); if (!real) real = dlsym(RTLD_NEXT, "unlink");
    if (path_match(p) && tick(2)) die();
    return real(p);
}
int unlinkat(int dfd, const char *p, int fl) {
    static int (*real)(int, const char *, int); if (!real) real = dlsym(RTLD_NEXT, "unlinkat");
    if (path_match(p) && tick(2)) die();
    return real(dfd, p, fl);
}
int ftruncate(int fd, off_t l) {
    static int (*real)(int, off_t); if (!real) real = dlsym(RTLD_NEXT, "ftruncate");
    if (fd_match(fd) && tick(3)) die();
    return real(fd, l);
}
int ftruncate64(int fd, off64_t l) {
    static int (*real)(int, off64_t); if (!real) real = dlsym(RTLD_NEXT, "ftruncate64");
    if (fd_match(fd) && tick(3)) die();
    return real(fd, l);
}
int rename(const char *a, const char *b) {
    static int (*real)(const char *, const char *); if (!real) real = dlsym(RTLD_NEXT, "rename");
    if ((path_match(a) || path_match(b)) && tick(4)) die();
    return real(a, b);
}
/* file creation changes the durable state too (an empty journal appears) */
int open(const char *p, int flags, ...) {
    static int (*real)(const char *, int, ...); if (!real) real = dlsym(RTLD_NEXT, "open");
    mode_t m = 0;
    if (flags & (O_CREAT | O_TMPFILE)) { va_list ap; va_start(ap, flags); m = va_arg(ap, mode_t); va_end(ap); }
    if ((flags & O_CREAT) && path_match(p) && access(p, F_OK) != 0 && tick(5)) die();
    return real(p, flags, m);
}
int open64(const char *p, int flags, ...) {
    static int (*real)(const char *, int, ...); if (!real) real = dlsym(RTLD_NEXT, "open64");
    mode_t m = 0;
    if (flags & (O_CREAT | O_TMPFILE)) { va_list ap; va_start(ap, flags); m = va_arg(ap, mode_t); va_end(ap); }
    if ((flags & O_CREAT) && path_match(p) && access(p, F_OK) != 0 && tick(5)) die();
    return real(p, flags, m);
}
int openat(int dfd, const char *p, int flags, ...) {
    static int (*real)(int, const char *, int, ...); if (!real) real = dlsym(RTLD_NEXT, "openat");
    mode_t m = 0;
    if (flags & (O_CREAT | O_TMPFILE)) { va_list ap; va_start(ap, flags); m = va_arg(ap, mode_t); va_end(ap); }
    if ((flags & O_CREAT) && path_match(p) && access(p, F_OK) != 0 && tick(5)) die();
    return real(dfd, p, flags, m);
}
