#!/venv/bin/python
"""CLI of the artap deterministic-simulation checks:  check.py <Cxx> [--tier quick|thorough] [--seed N] [--replay F]"""
import os
import sys
import warnings

warnings.filterwarnings('ignore')
HERE = os.path.dirname(os.path.abspath(__file__))
if HERE not in sys.path:
    sys.path.insert(0, HERE)

if __name__ == '__main__':
    from artapsim import driver
    rc = driver.main(sys.argv[1:])
    sys.stdout.flush()
    sys.exit(rc)
