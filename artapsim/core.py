"""Run context shared by all property modules: violation/probe recording and the
result record that travels from a worker process to the coordinator."""
import hashlib
import traceback

from . import kernel


class Ctx:
    """what a monitor reports into while one simulated run proceeds"""

    def __init__(self, pid, D, sim=None):
        self.pid = pid
        self.D = D
        self.sim = sim
        self.violations = []        # list of dict(clause, site, text)
        self.probes = {}
        self.checks = 0             # non-vacuous clause evaluations
        self.sigparts = []
        self.sample = {}
        self.outcome = None

    def violation(self, clause, site, text):
        if len(self.violations) < 5:
            self.violations.append({'clause': clause, 'site': site, 'text': str(text)[:600]})
        if self.sim is not None:
            self.sim.ev('VIOLATION', clause, site)

    def probe(self, name, n=1):
        self.probes[name] = self.probes.get(name, 0) + n

    def check(self, n=1):
        self.checks += n

    def sig(self, *parts):
        self.sigparts.append(parts)


def result(ctx, sim, outcome=None, extra_stats=None):
    """compact, picklable record of one run"""
    D = ctx.D
    if outcome is None:
        outcome = 'violation' if ctx.violations else (ctx.outcome or 'ok')
    elif ctx.violations:
        outcome = 'violation'
    stats = dict(sim.stats) if sim is not None else {}
    if extra_stats:
        stats.update(extra_stats)
    sig = hashlib.sha1(repr((ctx.sigparts, sim.sigs if sim is not None else None)).encode()).hexdigest()[:16]
    return {
        'outcome': outcome,
        'violations': ctx.violations,
        'digest': sim.digest() if sim is not None else '',
        'sig': sig,
        'sched_sigs': list(sim.sigs) if sim is not None else [],
        'nontrivial': ctx.checks > 0,
        'checks': ctx.checks,
        'stats': stats,
        'probes': ctx.probes,
        'vtime': sim.vtime() if sim is not None else 0.0,
        'taken': dict(D.taken),
        'ndec': D.consulted,
        'sample': ctx.sample,
        'tail': _tail(sim, ctx),
        'head': sim.log_head(40) if (sim is not None and sim.keep_log) else None,
        'seed': D.seed,
    }


def _tail(sim, ctx):
    if sim is None or not (ctx.violations or sim.keep_log):
        return None
    if sim.keep_log and ctx.violations:
        # the 40 events leading to the first violation (a serial twin or later work may follow it)
        for i, rec in enumerate(sim.log):
            if len(rec) > 3 and rec[3] == 'VIOLATION':
                return [list(map(kernel._plain, r)) for r in sim.log[max(0, i - 40):i + 1]]
    return sim.log_tail(40)


def guarded(pid, fn, D, opts):
    """run fn(D, opts) -> result; kernel-level outcomes and harness errors are classified here"""
    try:
        return fn(D, opts)
    except kernel.StepCap:
        return {'outcome': 'inconclusive', 'violations': [], 'digest': 'stepcap', 'sig': 'stepcap',
                'sched_sigs': [], 'nontrivial': False, 'checks': 0, 'stats': {'step_cap': 1}, 'probes': {},
                'vtime': 0.0, 'taken': dict(D.taken), 'ndec': D.consulted, 'sample': {}, 'tail': None,
                'head': None, 'seed': D.seed}
    except Exception:
        return {'outcome': 'harness_error', 'violations': [], 'digest': 'error', 'sig': 'error',
                'sched_sigs': [], 'nontrivial': False, 'checks': 0, 'stats': {}, 'probes': {},
                'vtime': 0.0, 'taken': dict(D.taken), 'ndec': D.consulted, 'sample': {}, 'tail': None,
                'head': None, 'seed': D.seed, 'traceback': traceback.format_exc()}
