"""Small executable reference models used as oracles (textbook definitions, O(n^2), no cleverness)."""
import math


def mrank(marker):
    """feasibility marker -> violation degree (0 = feasible); smaller is better"""
    if marker == 0:
        return 0.0
    return abs(float(marker))


def dominates(p, q):
    """textbook constrained Pareto dominance on signed-cost vectors whose last entry is the marker.
    1 = p dominates, 2 = q dominates, 0 = neither"""
    rp, rq = mrank(p[-1]), mrank(q[-1])
    if rp != rq:
        return 1 if rp < rq else 2
    pb = qb = False
    for a, b in zip(p[:-1], q[:-1]):
        if a < b:
            pb = True
        elif b < a:
            qb = True
    if pb and not qb:
        return 1
    if qb and not pb:
        return 2
    return 0


def ranks(cost_vectors):
    """front number by the definition: 1 if nothing dominates it, else 1 + max front of its dominators"""
    n = len(cost_vectors)
    doms = [[] for _ in range(n)]        # doms[i] = indices that dominate i
    for i in range(n):
        for j in range(i + 1, n):
            d = dominates(cost_vectors[i], cost_vectors[j])
            if d == 1:
                doms[j].append(i)
            elif d == 2:
                doms[i].append(j)
    rank = [None] * n
    remaining = set(range(n))
    cur = 1
    while remaining:
        layer = [i for i in remaining if all(rank[j] is not None and rank[j] < cur for j in doms[i])]
        if not layer:
            raise RuntimeError('domination relation has a cycle')   # cannot happen for a strict partial order
        for i in layer:
            rank[i] = cur
        remaining -= set(layer)
        cur += 1
    # the layered peel equals 1 + max rank of dominators because dominance is transitive
    return rank


def nondominated(cost_vectors):
    """indices of vectors not dominated by any other vector"""
    out = []
    for i, p in enumerate(cost_vectors):
        if not any(dominates(q, p) == 1 for j, q in enumerate(cost_vectors) if j != i):
            out.append(i)
    return out


def crowding(front_costs):
    """crowding distance of a front given as list of signed-cost vectors (marker last), for fronts WITHOUT tied
    objective values: extremes inf, interior sum over objectives of neighbour gap / range"""
    n = len(front_costs)
    if n <= 2:
        return [math.inf] * n
    m = len(front_costs[0]) - 1
    dist = [0.0] * n
    for d in range(m):
        order = sorted(range(n), key=lambda i: front_costs[i][d])
        lo, hi = front_costs[order[0]][d], front_costs[order[-1]][d]
        dist[order[0]] = math.inf
        dist[order[-1]] = math.inf
        rng = hi - lo
        for k in range(1, n - 1):
            if rng > 0.0:
                dist[order[k]] += (front_costs[order[k + 1]][d] - front_costs[order[k - 1]][d]) / rng
    return dist


def has_ties(front_costs):
    m = len(front_costs[0]) - 1
    for d in range(m):
        vals = [c[d] for c in front_costs]
        if len(set(vals)) != len(vals):
            return True
    return False


def close_vectors(a, b, tol=1e-10):
    return len(a) == len(b) and all(abs(x - y) < tol for x, y in zip(a, b))
