"""Seams (DESIGN.md §3.2).  Everything is a module attribute of artap that already
exists; nothing in /repo is edited.  `install()` is idempotent and asserts that
each seam exists – a missing seam is a harness error (exit 2), never a VIOLATION.
"""
import copy
import math
import os
import random as _pyrandom
import sqlite3 as _sq
import sys
import tempfile
import types

from . import kernel

SIM = None            # the Sim of the run in progress
RNG = None            # the SimRandom singleton
_INSTALLED = False


class HarnessError(Exception):
    pass


def repo_path():
    return os.environ.get('VERIF_REPO', '/repo')


def set_sim(sim):
    global SIM, CONTEXT_BACKEND
    SIM = sim
    CONTEXT_BACKEND = None


# --------------------------------------------------------------------------- joblib
CONTEXT_BACKEND = None      # the joblib backend context the *caller* of the library is inside (None, 'loky', 'threading')


class backend_context:
    """`with joblib.parallel_backend(name):` around a call into the library, as user code that uses joblib itself would do"""

    def __init__(self, name):
        self.name = name

    def __enter__(self):
        global CONTEXT_BACKEND
        self.prev, CONTEXT_BACKEND = CONTEXT_BACKEND, self.name
        return self

    def __exit__(self, *a):
        global CONTEXT_BACKEND
        CONTEXT_BACKEND = self.prev
        return False


class SimParallel:
    """stand-in for joblib.Parallel: FIFO dispatch to min(n_jobs, len) baton-passed threads;
    honours the memory semantics of the arguments (without sharedmem/threading every task
    runs on a deep copy, as with loky processes)"""
    instances = 0

    def __init__(self, n_jobs=1, **kw):
        self.n_jobs = n_jobs
        self.kw = kw

    def __call__(self, calls):
        calls = list(calls)
        sim = SIM
        kw = self.kw
        # joblib's rules: require='sharedmem' is a hard constraint (always threads); an explicit backend decides; otherwise an
        # enclosing parallel_backend(...) context of the caller decides and overrides the soft hint prefer='threads'
        if kw.get('require') == 'sharedmem' or kw.get('backend') == 'threading':
            shared = True
        elif kw.get('backend') is not None:
            shared = False
        elif CONTEXT_BACKEND is not None:
            shared = CONTEXT_BACKEND == 'threading'
        else:
            shared = kw.get('prefer') == 'threads'
        sim.stat('parallel_batches')
        if not shared:
            sim.stat('parallel_not_shared')
            calls = [(f, copy.deepcopy(a), copy.deepcopy(k)) for f, a, k in calls]
        n_jobs = self.n_jobs
        if n_jobs is None or n_jobs == 0:
            n_jobs = 1
        if n_jobs < 0:
            n_jobs = max(1, 16 + 1 + n_jobs)
        if not calls:
            return []
        queue = list(enumerate(calls))
        results = [None] * len(calls)
        abort = []

        def worker():
            while queue and not abort:
                i, (f, a, k) = queue.pop(0)
                sim.ev('task', i)
                sim.yield_point('task')
                try:
                    results[i] = f(*a, **k)
                except kernel.SimAbort:
                    raise
                except BaseException as e:
                    abort.append((i, e))
                    raise

        sim.run_workers([worker] * min(n_jobs, len(calls)))
        if abort:
            raise sorted(abort, key=lambda x: x[0])[0][1]
        return results


import concurrent.futures as _cf


class _SimFuture(_cf.Future):
    """a real Future (so that concurrent.futures.wait / as_completed accept it) whose work runs on simulated workers the moment
    somebody needs a result"""

    def __init__(self, executor):
        super().__init__()
        self._executor = executor

    def result(self, timeout=None):
        if not self.done():
            self._executor._run()
        return super().result(timeout=0)

    def exception(self, timeout=None):
        if not self.done():
            self._executor._run()
        return super().exception(timeout=0)


def _sim_wait(fs, timeout=None, return_when=_cf.ALL_COMPLETED):
    fs = list(fs)
    for f in fs:
        if isinstance(f, _SimFuture) and not f.done():
            f._executor._run()
    return _cf.wait(fs, timeout=0, return_when=return_when)


def _sim_as_completed(fs, timeout=None):
    fs = list(fs)
    for f in fs:
        if isinstance(f, _SimFuture) and not f.done():
            f._executor._run()
    return _cf.as_completed(fs, timeout=0)


class SimThreadPoolExecutor:
    """stand-in for concurrent.futures.ThreadPoolExecutor should the library use one instead of joblib: the submitted
    calls run on baton-passed simulated workers; as with the real class an exception stays inside its future / the result
    iterator and is lost if nobody asks for it"""

    def __init__(self, max_workers=None, **kw):
        self.max_workers = max_workers or 4
        self._pending = []

    def __enter__(self):
        return self

    def __exit__(self, *a):
        self.shutdown()
        return False

    def _run(self):
        pending, self._pending = self._pending, []
        if not pending:
            return
        sim = SIM
        sim.stat('parallel_batches')
        queue = list(pending)

        def worker():
            while queue:
                fut, f, a, k = queue.pop(0)
                sim.yield_point('task')
                fut.set_running_or_notify_cancel()
                try:
                    fut.set_result(f(*a, **k))
                except kernel.SimAbort:
                    raise
                except BaseException as e:
                    fut.set_exception(e)

        sim.run_workers([worker] * min(self.max_workers, len(pending)))

    def submit(self, f, *a, **k):
        fut = _SimFuture(self)
        self._pending.append((fut, f, a, k))
        return fut

    def map(self, f, *iterables, timeout=None, chunksize=1):
        futs = [self.submit(f, *args) for args in zip(*iterables)]
        self._run()

        def results():
            for fut in futs:
                yield fut.result()
        return results()

    def shutdown(self, wait=True, cancel_futures=False):
        self._run()


def sim_delayed(f):
    def d(*a, **k):
        return (f, a, k)
    return d


# --------------------------------------------------------------------------- sqlite
class ConnProxy:
    def __init__(self, real, name, busy=5.0):
        self._r = real
        self._name = name
        self._busy = busy          # the busy time-out the SUT asked for (sqlite3.connect's timeout=, default 5 s), virtual
        self._closed = False
        self._dml_ok = False

    def cursor(self):
        return CurProxy(self, self._r.cursor())

    def commit(self):
        sim = SIM
        if sim is not None:
            sim.ev('sql', 'commit')
            sim.yield_point('commit', 1e-3)
        r = self._r.commit()
        if sim is not None:
            if self._dml_ok:
                sim.sql_errors_in_a_row[sim.cur] = 0
                self._dml_ok = False
            sim.stat('commits')
            if sim.tasks:
                sim.wake_lock_waiters()
            sim.yield_point('committed', 0.0)
        return r

    def rollback(self):
        r = self._r.rollback()
        if SIM is not None and SIM.tasks:
            SIM.wake_lock_waiters()
        return r

    def close(self):
        if self._closed:
            return
        self._closed = True
        held = self._in_txn()
        r = self._r.close()
        if held and SIM is not None and SIM.tasks:
            SIM.wake_lock_waiters()      # only a connection inside a transaction can have released a lock
        return r

    def _in_txn(self):
        try:
            return bool(self._r.in_transaction)
        except Exception:
            return True

    def execute(self, sql, *a):
        return self.cursor().execute(sql, *a)

    def __del__(self):
        try:
            if not self._closed:
                self._closed = True
                held = self._in_txn()
                self._r.close()
                if held and SIM is not None and SIM.tasks:
                    SIM.wake_lock_waiters()
        except Exception:
            pass

    def __getattr__(self, k):
        return getattr(self._r, k)


class CurProxy:
    def __init__(self, conn, real):
        self._c = conn
        self._r = real

    def execute(self, sql, *a):
        sim = SIM
        if sim is None:
            return self._r.execute(sql, *a)
        w = sql.split()
        sim.ev('sql', w[0], w[1] if len(w) > 1 else '')
        sim.yield_point('exec', 1e-3)
        start = None
        while True:
            try:
                r = self._r.execute(sql, *a)
                sim.stat('sql_exec')
                if w[0].upper() not in ('PRAGMA', 'SELECT'):
                    self._c._dml_ok = True
                return self
            except _sq.OperationalError as e:
                nerr = sim.sql_errors_in_a_row.get(sim.cur, 0) + 1
                sim.sql_errors_in_a_row[sim.cur] = nerr
                if nerr > kernel.LIVELOCK_CAP:
                    # a legitimately stalled lock holder (<= 3 x 61 s) costs a waiter at most ~75 failed calls
                    sim.ev('livelock')
                    raise kernel.Livelock('%d failed SQL calls in a row by one task without a successful write, last: %s'
                                          % (nerr, e))
                if 'locked' not in str(e):
                    sim.stat('sql_error')
                    raise
                sim.stat('lock_conflict')
                busy = self._c._busy
                if not sim.active():
                    # serial code meeting a lock: only a foreign holder (another process, fault kind foreign_lock) can have it
                    fl = sim.foreign_lock
                    if fl is not None and fl[1] <= sim.now + busy:
                        sim.now = max(sim.now, fl[1])
                        release_foreign_lock(sim)
                        continue            # the busy handler succeeded within the time-out
                    sim.ev('busy_timeout')
                    sim.stat('busy_timeout')
                    sim.now += busy
                    raise
                fl = sim.foreign_lock
                if fl is not None and fl[1] <= sim.now:
                    # the other process (fault kind foreign_lock) is done: its lock goes away, everybody waiting may retry
                    release_foreign_lock(sim)
                    sim.wake_lock_waiters()
                    continue
                if start is None:
                    start = sim.now
                if sim.now - start >= busy:
                    sim.stat('busy_timeout')
                    sim.ev('busy_timeout')
                    raise
                sim.ev('lock_wait')
                sim.block_on_lock(start + busy if fl is None else min(start + busy, fl[1]))

    def executemany(self, sql, seq):
        for a in seq:
            self.execute(sql, a)
        return self

    def fetchall(self):
        return self._r.fetchall()

    def fetchone(self):
        return self._r.fetchone()

    def __iter__(self):
        return iter(self._r)

    def __getattr__(self, k):
        return getattr(self._r, k)


_conn_counter = [0]


def sim_connect(db, *a, **k):
    sim = SIM
    if sim is None:
        return _sq.connect(db, *a, **k)
    sim.ev('sql', 'connect')
    sim.yield_point('connect', 0.0)
    sim.stat('connects')
    busy = k.get('timeout', a[0] if a else 5.0)
    try:
        busy = max(0.0, float(busy))
    except (TypeError, ValueError):
        busy = 5.0
    if a:
        a = (0,) + tuple(a[1:])
    else:
        k['timeout'] = 0       # libsqlite3 never sleeps; the busy handler is modelled in virtual time with the SUT's time-out
    k.setdefault('check_same_thread', False)
    return ConnProxy(_sq.connect(db, *a, **k), os.path.basename(str(db)), busy)


def take_foreign_lock(sim, path, hold):
    """fault kind foreign_lock: another process holds the database exclusively for `hold` virtual seconds"""
    release_foreign_lock(sim)
    c = _sq.connect(path, timeout=0, isolation_level=None, check_same_thread=False)   # released by whichever simulated worker sees it expire
    c.execute('BEGIN EXCLUSIVE')
    sim.foreign_lock = (c, sim.now + hold)
    sim.stat('foreign_lock')
    sim.ev('foreign_lock', hold)


def release_foreign_lock(sim):
    fl = sim.foreign_lock
    if fl is not None:
        sim.foreign_lock = None
        try:
            fl[0].execute('ROLLBACK')
        finally:
            fl[0].close()
        sim.ev('foreign_release')


sqlproxy = types.SimpleNamespace(
    connect=sim_connect, Error=_sq.Error, OperationalError=_sq.OperationalError,
    DatabaseError=_sq.DatabaseError, IntegrityError=_sq.IntegrityError,
    ProgrammingError=_sq.ProgrammingError, InterfaceError=_sq.InterfaceError,
    sqlite_version=_sq.sqlite_version, Row=_sq.Row)


# --------------------------------------------------------------------------- PRNG
_ONE_MINUS = 1.0 - 2.0 ** -53
EXTREME_UNIT = (0.0, _ONE_MINUS, 0.5, math.nextafter(0.5, 0.0), math.nextafter(0.5, 1.0),
                2.0 ** -53, 1e-9, 1.0 - 1e-9)


DRAW_CAP = 400000


class SimRandom:
    """the `random` the optimisers see: a seeded generator plus, on a seeded subset of draws,
    extreme but legal values (DESIGN.md §4.5 prng_extreme)"""

    def __init__(self):
        self.r = _pyrandom.Random(0)
        self.D = None
        self.p_ext = 0.0
        self.draws = 0
        self.extremes = 0
        self.trace = None          # optional list of (kind, value) for monitors that need the draws
        self.last_sample = None
        self.last_choice = None

    def begin(self, D, sut_seed, p_ext=0.0):
        self.r = _pyrandom.Random(sut_seed)
        self.D = D
        self.p_ext = p_ext
        self.draws = 0
        self.extremes = 0
        self.trace = None
        self.last_sample = None

    def _ext(self):
        self.draws += 1
        if self.draws > DRAW_CAP:
            # an optimiser loop that never terminates (e.g. offspring rejected forever) keeps drawing: turn the hang
            # into a deterministic, replayable outcome instead of a wall-clock kill
            raise kernel.Livelock('more than %d PRNG draws in one run' % DRAW_CAP)
        if self.p_ext and self.D.flag('prng', ('x', self.draws), self.p_ext):
            self.extremes += 1
            return True
        return False

    def random(self):
        v = self.r.random()
        if self._ext():
            v = EXTREME_UNIT[self.D.dec('prng', ('v', self.draws), len(EXTREME_UNIT))]
        return v

    def uniform(self, a, b):
        v = self.r.random()
        if self._ext():
            j = self.D.dec('prng', ('v', self.draws), len(EXTREME_UNIT) + 1)
            if j == len(EXTREME_UNIT):
                return b            # random.uniform(a, b) may return b through rounding
            v = EXTREME_UNIT[j]
        return a + (b - a) * v

    def choice(self, seq):
        n = len(seq)
        if n == 0:
            raise IndexError('Cannot choose from an empty sequence')
        i = self.r.randrange(n)
        if self._ext():
            i = (0, n - 1)[self.D.dec('prng', ('v', self.draws), 2)]
        self.last_choice = seq[i]
        return seq[i]

    def sample(self, population, k):
        n = len(population)
        idx = self.r.sample(range(n), k)
        if self._ext() and n >= k:
            j = self.D.dec('prng', ('v', self.draws), 3)
            if j == 0:
                idx = list(range(k))
            elif j == 1:
                idx = list(range(n - 1, n - 1 - k, -1))
            else:
                idx = [n - 1] + list(range(k - 1))
        self.last_sample = [population[i] for i in idx]
        return list(self.last_sample)

    def randint(self, a, b):
        return a + self.randrange(b - a + 1)

    def randrange(self, n):
        i = self.r.randrange(n)
        if self._ext():
            i = (0, n - 1)[self.D.dec('prng', ('v', self.draws), 2)]
        return i

    def shuffle(self, x):
        self.draws += 1
        self.r.shuffle(x)

    def gauss(self, mu, sigma):
        self.draws += 1
        return self.r.gauss(mu, sigma)

    def seed(self, *a):
        pass


def _need(mod, name):
    if not hasattr(mod, name):
        raise HarnessError('seam missing: %s.%s' % (mod.__name__, name))


class SimLock:
    """what `threading.Lock()` / `threading.RLock()` give to code of the library under test (the pinned tree creates none; a
    "thread-safety fix" would): simulated workers are real threads that run one at a time, so a real lock held across a yield
    point would block the thread that holds the baton and hang the simulation.  This lock parks the *task* instead, the
    scheduler goes on, and a lock that can never be released (a worker waiting for itself) ends as the kernel's Deadlock."""

    def __init__(self, reentrant):
        self.reentrant = reentrant
        self.owner = None
        self.count = 0

    @staticmethod
    def _me():
        sim = SIM
        return sim.cur if (sim is not None and sim.tasks) else 'main'

    def acquire(self, blocking=True, timeout=-1):
        sim = SIM
        me = self._me()
        in_workers = sim is not None and bool(sim.tasks)
        if in_workers:
            sim.yield_point('lock')
        deadline = None if (timeout is None or timeout < 0 or not in_workers) else sim.now + timeout
        while True:
            if self.owner is None or (self.reentrant and self.owner == me):
                self.owner = me
                self.count += 1
                return True
            if not blocking:
                return False
            if not in_workers:
                raise kernel.Deadlock()         # the only thread there is waits for itself
            sim.stat('lock_wait')
            if sim.block_on_lock(deadline) == 'timeout' and deadline is not None and sim.now >= deadline:
                return False

    def release(self):
        if self.owner is None:
            raise RuntimeError('release unlocked lock')
        self.count -= 1
        if self.count == 0:
            self.owner = None
            sim = SIM
            if sim is not None and sim.tasks:
                sim.wake_lock_waiters()

    def locked(self):
        return self.owner is not None

    def __enter__(self):
        return self.acquire()

    def __exit__(self, *a):
        self.release()
        return False


def _patch_threading_locks():
    import threading
    real_lock, real_rlock = threading.Lock, threading.RLock

    def from_library():
        f = sys._getframe(2)
        return (f.f_globals.get('__name__') or '').split('.')[0] == 'artap'

    def Lock():
        return SimLock(False) if from_library() else real_lock()

    def RLock():
        return SimLock(True) if from_library() else real_rlock()

    threading.Lock, threading.RLock = Lock, RLock


def install():
    """import artap from the repository under test and put every seam in place"""
    global _INSTALLED, RNG
    if _INSTALLED:
        return
    _patch_threading_locks()
    import logging
    logging.disable(logging.CRITICAL)
    scratch = scratch_dir()
    tempfile.tempdir = scratch
    rp = repo_path()
    if sys.path[0] != rp:
        sys.path.insert(0, rp)
    import artap
    if not os.path.realpath(artap.__file__).startswith(os.path.realpath(rp) + os.sep):
        raise HarnessError('artap imported from %s, expected under %s' % (artap.__file__, rp))
    import artap.operators as ops
    import artap.datastore as ds
    import artap.job as job
    import artap.problem as pr
    import artap.algorithm as alg
    import artap.utils as ut
    import artap.archive as ar
    import artap.algorithm_swarm as sw
    import artap.algorithm_genetic as ge
    import artap.algorithm_NSGAII as ns
    import artap.algorithm_sweep as swp
    RNG = SimRandom()
    if not hasattr(ops, 'Parallel') and not hasattr(ops, 'ThreadPoolExecutor'):
        raise HarnessError('seam missing: artap.operators has neither Parallel (joblib) nor ThreadPoolExecutor')
    for mod, name in ((ds, 'sqlite3'), (job, 'time'), (pr, 'atexit'),
                      (alg, 'uuid1'), (ops, 'random'), (ut, 'random'), (sw, 'uniform'),
                      (ar, 'choice'), (ar, 'sample')):
        _need(mod, name)
    if hasattr(ops, 'Parallel'):
        ops.Parallel = SimParallel
        ops.delayed = sim_delayed
    if hasattr(ops, 'ThreadPoolExecutor'):
        ops.ThreadPoolExecutor = SimThreadPoolExecutor
        if hasattr(ops, 'wait'):
            ops.wait = _sim_wait
        if hasattr(ops, 'as_completed'):
            ops.as_completed = _sim_as_completed
        if hasattr(ops, 'concurrent'):
            pass    # `concurrent.futures.wait(...)` through the package would block on simulated futures: not supported
    ds.sqlite3 = sqlproxy
    clock = types.SimpleNamespace(time=lambda: SIM.now if SIM is not None else kernel.EPOCH)

    def job_clock():
        # reading the wall clock is a pre-emption point of a worker (start of an attempt, just before the store write)
        sim = SIM
        if sim is None:
            return kernel.EPOCH
        if sim.tasks:
            sim.yield_point('clock', 0.0, crash=False)
        return sim.now
    job.time = types.SimpleNamespace(time=job_clock)
    for m in (sw, ge, ns, swp):
        if hasattr(m, 'time'):
            m.time = clock
    pr.atexit = types.SimpleNamespace(register=lambda *a, **k: None)
    _need(pr, 'datetime')
    import datetime as _dt
    frozen = _dt.datetime(2020, 1, 1, 0, 0, 0, 0)
    pr.datetime = types.SimpleNamespace(datetime=types.SimpleNamespace(now=lambda: frozen))
    alg.uuid1 = lambda: types.SimpleNamespace(hex='0' * 32)
    ops.random = RNG
    ut.random = RNG.random
    sw.uniform = RNG.uniform
    ar.choice = RNG.choice
    ar.sample = RNG.sample
    if hasattr(swp, 'random'):
        swp.random = RNG
    _INSTALLED = True


_SCRATCH = None


def scratch_dir():
    global _SCRATCH
    base = os.environ.get('VERIF_SCRATCH') or '/dev/shm'
    if not os.path.isdir(base):
        base = tempfile.gettempdir()
    d = os.path.join(base, 'artap-verif-%d' % os.getpid())
    if _SCRATCH != d:
        os.makedirs(d, exist_ok=True)
        _SCRATCH = d
    return d


def cleanup_scratch():
    import shutil
    if _SCRATCH and os.path.isdir(_SCRATCH):
        shutil.rmtree(_SCRATCH, ignore_errors=True)
