"""The environment of a simulated run: the user's problem (parameters, objectives,
constraints – owned by the harness, deterministic), its failure plan, its call log,
and factories for the algorithms under test.  Everything is derived from the
run's Decisions.
"""
import contextlib
import enum
import io
import math
import os
import sys

from . import seams, kernel

BOX_KINDS = ('unit', 'negative', 'offset', 'mixedsign', 'tiny', 'huge', 'lopsided', 'odd')
BOXES = {
    'unit': (0.0, 1.0),
    'negative': (-5.0, -1.0),
    'offset': (10.0, 20.0),
    'mixedsign': (-3.0, 5.0),
    'tiny': (3.0, 3.0 + 1e-6),
    'huge': (-1.0e6, 1.0e6),
    'lopsided': (-1.0e6, 0.3),      # |lb| >> |ub|: lb + (ub - lb) is not ub in floating point
    'odd': (0.4, 9.6),              # bounds that are not on a decimal grid
}
LATENCIES = (1.0, 10.0, 60.0, 600.0, 3600.0, 36000.0)
OUTCOMES = ('ok', 'timeout', 'runtime', 'value', 'key', 'zerodiv', 'oserror')
EXC = {'timeout': TimeoutError, 'runtime': RuntimeError, 'value': ValueError, 'key': KeyError,
       'zerodiv': ZeroDivisionError,
       'oserror': FileNotFoundError}      # an OSError that is NOT a time-out (TimeoutError is an OSError subclass too)
TRANSIENT = ('timeout', 'runtime')


class Call:
    __slots__ = ('no', 'ind_id', 'obj', 'vector', 'outcome', 'task', 'attempt', 'ref', 'draws')

    def __init__(self, no, ind_id, obj, vector, outcome, task, attempt, ref):
        self.no = no
        self.ind_id = ind_id
        self.obj = obj
        self.vector = vector
        self.outcome = outcome
        self.task = task
        self.attempt = attempt
        self.ref = ref       # keeps the individual alive so that id() stays unique
        self.draws = seams.RNG.draws if seams.RNG is not None else 0


class World:
    """n parameters, m objectives, k inequality constraints, all known to the oracle"""

    def __init__(self, D, sim, n=None, m=None, ncons=None, box=None, quantised=None, precision=None,
                 fail=None, with_tol=False, maximise=None, with_predict=False, name='simworld', int_params=False):
        self.D = D
        self.sim = sim
        self.n = n if n is not None else 1 + D.dec('cfg', 'n', 5)
        self.m = m if m is not None else 1 + D.dec('cfg', 'm', 4)
        self.ncons = ncons if ncons is not None else D.weighted('cfg', 'ncons', (3, 1, 1))
        boxk = box if box is not None else D.pick('cfg', 'box', ('unit', 'negative', 'offset', 'mixedsign',
                                                                 'tiny', 'huge', 'mixed', 'lopsided', 'odd'))
        self.boxkind = boxk
        self.quantised = quantised if quantised is not None else bool(D.weighted('cfg', 'quant', (3, 1)))
        self.fail = fail if fail is not None else 'none'
        self.fail_p = {'none': 0.0, 'light': 0.04, 'heavy': 0.3, 'other': 0.04}.get(self.fail, 0.0)
        self.pattern = {}            # ind_id -> list of outcomes (explicit plan, C06)
        self.kill_from = None        # call number from which every objective call times out (a run that dies)
        self.params = []
        # names: x0.. / f0.. or words that are NOT in string order (a store that returns definitions sorted by name is wrong)
        worded = D.weighted('cfg', 'names', (2, 1)) == 1
        pnames = ('radius', 'angle', 'width', 'depth', 'height') if worded else tuple('x%d' % i for i in range(5))
        cnames = ('mass', 'efficiency', 'loss', 'area') if worded else tuple('f%d' % j for j in range(4))
        for i in range(self.n):
            kind = boxk if boxk != 'mixed' else D.pick('cfg', ('boxi', i), BOX_KINDS)
            lb, ub = BOXES[kind]
            p = {'name': pnames[i], 'bounds': [lb, ub]}
            prec = precision if precision is not None else D.weighted('cfg', ('prec', i), (5, 1, 1, 1))
            if prec:
                # declared coarse precisions: a binary fraction of the width, and 5*10^k / 4*10^k grids (not powers of ten)
                decade = 10.0 ** math.floor(math.log10(ub - lb))
                p['precision'] = ((ub - lb) / 64.0, 0.05 * decade, 0.4 * decade)[prec - 1]
            if int_params and not prec and kind in ('negative', 'offset', 'mixedsign', 'unit') and D.dec('cfg', ('ptype', i), 3) == 1:
                p['parameter_type'] = 'integer'     # sampled designs are truncated to integers; the box is the same
            if with_tol:
                p['tol'] = (ub - lb) * (0.01, 0.05, 0.001)[D.dec('cfg', ('tol', i), 3)]
            p['initial_value'] = lb + (ub - lb) * 0.25
            self.params.append(p)
        self.costs_def = []
        for j in range(self.m):
            mx = maximise if maximise is not None else bool(D.weighted('cfg', ('max', j), (2, 1)))
            cd = {'name': cnames[j], 'criteria': 'maximize' if mx else 'minimize'}
            # a minimised objective may be declared without the 'criteria' key (the documented default); the sign of every
            # objective belongs to its own position whichever of its neighbours carry the key
            if not mx and D.weighted('cfg', ('nocrit', j), (3, 1)) == 1:
                del cd['criteria']
            self.costs_def.append(cd)
        self.signs = [(-1 if c.get('criteria') == 'maximize' else 1) for c in self.costs_def]
        self.centres = [[0.25 * j + 0.5 * D.unit('cfg', ('c', j, i)) for i in range(self.n)]
                        for j in range(self.m)]
        self.thr = [(0.7, 0.5, 0.9)[D.dec('cfg', ('thr', k), 3)] for k in range(self.ncons)]
        # what the user's objective returns: a list of Python floats, or a numpy array (vectorised FEM post-processing)
        self.ret_numpy = D.weighted('cfg', 'retnumpy', (4, 1)) == 1
        # ... or, for a list-returning objective, the very same list object whenever a vector is visited again (results of an
        # expensive solver memoised by design vector): what the library does to a design's costs must not reach it
        self.ret_memo = (not self.ret_numpy) and D.weighted('cfg', 'retmemo', (4, 1)) == 1
        self.memo = {}
        self.calls = []
        self.attempts = {}
        self.ncalls_ok = 0
        self.with_predict = with_predict
        self.predict_log = []
        self.name = name
        # the session may have defined and used an unrelated problem before this one: nothing of it may show here
        self.decoy = _decoy_session(self) if D.weighted('cfg', 'decoy', (3, 1)) == 1 else None
        self.problem = _make_problem(self)

    # ---- the user's functions (pure, recomputable by the oracle)
    def unitv(self, x):
        return [(x[i] - self.params[i]['bounds'][0]) / (self.params[i]['bounds'][1] - self.params[i]['bounds'][0])
                for i in range(self.n)]

    def f(self, x):
        u = self.unitv(x)
        out = []
        for j in range(self.m):
            c = self.centres[j]
            s = 0.0
            for i in range(self.n):
                d = u[i] - c[i]
                s += (1 + ((i + 2 * j) % 3)) * d * d
            s = s + 0.125 * j
            if self.quantised:
                s = math.floor(s * 8.0) / 8.0
            out.append(float(s))
        return out

    def g(self, x):
        u = self.unitv(x)
        return [float(u[k % self.n] - self.thr[k]) for k in range(self.ncons)]

    def feasible(self, x):
        return all(v < 0.0 for v in self.g(x))

    # ---- failure plan
    def outcome(self, ind_id, attempt):
        if self.kill_from is not None and len(self.calls) >= self.kill_from:
            return 'timeout'        # the solver is down: every call from here on times out (the run dies after five)
        pat = self.pattern.get(ind_id)
        if pat is not None:
            return pat[attempt] if attempt < len(pat) else 'ok'
        if self.fail_p <= 0.0:
            return 'ok'
        if self.D.flag('fault', ('obj', ind_id, attempt), self.fail_p):
            if self.fail == 'other':
                return OUTCOMES[3 + self.D.dec('fault', ('objk', ind_id, attempt), 4)]
            return TRANSIENT[self.D.dec('fault', ('objk', ind_id, attempt), 2)]
        return 'ok'

    def in_box(self, x, slack_prec=True):
        """None if x is inside the box up to the tolerance of C08, else a description"""
        if len(x) != self.n:
            return 'dimension %d != %d' % (len(x), self.n)
        for i, p in enumerate(self.params):
            lb, ub = p['bounds']
            v = x[i]
            if isinstance(v, bool) or not isinstance(v, (float, int)) and not _is_npfloat(v):
                return 'coordinate %d is %r (%s)' % (i, v, type(v).__name__)
            v = float(v)
            if not math.isfinite(v):
                return 'coordinate %d is %r' % (i, v)
            # "in bounds exactly up to 1e-12": per bound, plus a few ulp of that bound (nothing can be closer than that)
            tl = 1e-12 + 4 * math.ulp(lb)
            tu = 1e-12 + 4 * math.ulp(ub)
            if 'precision' in p and slack_prec:
                tl += 0.5 * p['precision']
                tu += 0.5 * p['precision']
            if v < lb - tl or v > ub + tu:
                return 'coordinate %d = %r outside [%r, %r] by %.3g (tol %.3g)' % (
                    i, v, lb, ub, (lb - v) if v < lb else (v - ub), tl if v < lb else tu)
        return None


def _is_npfloat(v):
    try:
        import numpy as np
        return isinstance(v, np.floating)
    except Exception:
        return False


def _make_problem(world):
    from artap.problem import Problem

    class SimProblem(Problem):
        def set(self, **kwargs):
            self.name = world.name
            self.parameters = [dict(p) for p in world.params]
            self.costs = [dict(c) for c in world.costs_def]
            self.world = world

        def evaluate(self, individual):
            w = world
            sim = w.sim
            iid = individual.id
            a = w.attempts.get(id(individual), 0)
            w.attempts[id(individual)] = a + 1
            out = w.outcome(iid, a)
            vec = tuple(individual.vector)
            sim.ev('obj', iid, a, out)
            lat = LATENCIES[w.D.dec('fault', ('lat', iid, a), len(LATENCIES))]
            sim.yield_point('obj_in', lat)
            w.calls.append(Call(len(w.calls), iid, id(individual), vec, out, sim.cur, a, individual))
            if out != 'ok':
                sim.stat('obj_' + out)
                sim.yield_point('obj_fail', 0.0)
                raise EXC[out]('injected %s for design %d attempt %d' % (out, iid, a))
            r = w.f(individual.vector)
            w.ncalls_ok += 1
            sim.yield_point('obj_out', 0.0)
            if w.ret_numpy:
                import numpy as np
                return np.array(r)
            if w.ret_memo:
                # (the objective is defined on the unit box: a run after the box was narrowed in place is another function)
                return w.memo.setdefault((vec, tuple(tuple(q['bounds']) for q in w.params)), r)
            return r

        def evaluate_inequality_constraints(self, x):
            if world.sim.tasks:
                world.sim.yield_point('cons', 0.0)
            if w_ncons(world) == 0:
                return []
            return world.g(x)

    if world.with_predict:
        class SimProblemPredict(SimProblem):
            def predict(self, individual):
                return world.predict_hook(individual)
        cls = SimProblemPredict
    else:
        cls = SimProblem
    with quiet():
        p = cls()
    return p


def _decoy_session(world):
    """an unrelated study defined and used earlier in the same interpreter session: one more parameter, one more objective,
    the opposite criteria, a constraint, one transient failure (so it owns a failed design)"""
    from artap.problem import Problem
    from artap.individual import Individual
    from artap.algorithm import Algorithm

    class Decoy(Problem):
        def set(self, **kwargs):
            self.name = 'decoy'
            self.parameters = [{'name': 'p%d' % i, 'bounds': [-2.0, 3.0]} for i in range(world.n + 1)]
            self.costs = [{'name': 'g%d' % j, 'criteria': 'minimize' if world.signs[j % world.m] < 0 else 'maximize'}
                          for j in range(world.m + 1)]
            self.ncalls = 0

        def evaluate(self, individual):
            self.ncalls += 1
            if self.ncalls == 2:
                raise RuntimeError('decoy: transient failure')
            return [float(sum(individual.vector)) + 100.0 * (j + 1) for j in range(len(self.costs))]

        def evaluate_inequality_constraints(self, x):
            return [x[0] - 0.75]

    class DecoyAlgorithm(Algorithm):
        def run(self):
            pass

    with quiet():
        p = Decoy()
        a = DecoyAlgorithm(p, name='decoy')
        a.options['max_processes'] = 1
        try:
            a.evaluate([Individual([0.5] * (world.n + 1)), Individual([1.0] * (world.n + 1))])
        except Exception:
            pass            # the decoy is environment, not under judgement: whatever it does must not end the run here
        if world.D.dec('cfg', 'decoyrun', 3) == 1:
            # ... and optimised with one of the population algorithms (whatever those keep at class or module level)
            import types
            try:
                make_algorithm(world.D.pick('cfg', 'decoyalgo', ALGOS), types.SimpleNamespace(problem=p), 4, 2).run()
            except (kernel.Deadlock, kernel.StepCap, kernel.Livelock, kernel.SimAbort):
                raise
            except Exception:
                pass        # the decoy is environment, not under judgement (observation O5 can end such a run)
    return p, a


def w_ncons(world):
    return world.ncons


@contextlib.contextmanager
def quiet():
    """artap prints from Job / datastore; keep the check's stdout for VIOLATION lines only"""
    import sys
    old = sys.stdout
    sys.stdout = _NULL
    try:
        yield
    finally:
        sys.stdout = old


class _Null(io.TextIOBase):
    def write(self, s):
        return len(s)

    def flush(self):
        pass


_NULL = _Null()


def begin_run(D, policy=None, stall_p=None, timed=None, p_ext=0.0, keep_log=False, step_cap=None, line_p=None):
    """common prologue of every simulated run: fresh Sim, ids, PRNGs"""
    seams.install()
    import random
    import numpy as np
    from artap.individual import Individual
    _gc_hygiene()
    if policy is None:
        policy = D.pick('cfg', 'policy', kernel.POLICIES)
    if stall_p is None:
        stall_p = (0.0, 0.02, 0.08)[D.weighted('cfg', 'stall', (3, 2, 1))]
    if timed is None:
        timed = bool(D.dec('cfg', 'timed', 2))
    if line_p is None:
        line_p = (0.0, 0.03, 0.15)[D.weighted('cfg', 'linelevel', (4, 1, 1))]
    sim = kernel.Sim(D, policy=policy, stall_p=stall_p, timed=timed, keep_log=keep_log or KEEP_LOG,
                     step_cap=step_cap, line_p=line_p,
                     trace_prefix=os.path.join(os.path.realpath(seams.repo_path()), 'artap') + os.sep)
    _reset_loggers()
    _restore_process_globals()
    seams.set_sim(sim)
    Individual.counter = 0
    _reset_subclass_counters(Individual)
    sut_seed = D.dec('sut', 'seed', 1 << 30)
    random.seed(sut_seed)
    np.random.seed(sut_seed % (1 << 31))
    seams.RNG.begin(D, sut_seed, p_ext)
    sim.ev('begin', policy, stall_p, timed, sut_seed, line_p)
    return sim


def _reset_subclass_counters(cls):
    # should a subclass ever carry its own id counter (a class attribute forked from the base), a run must not inherit it
    # from the runs that happened to precede it in this process
    for sub in cls.__subclasses__():
        if 'counter' in sub.__dict__:
            try:
                delattr(sub, 'counter')
            except (AttributeError, TypeError):
                pass
        _reset_subclass_counters(sub)


_CORE = ('problem', 'individual', 'algorithm', 'algorithm_genetic', 'algorithm_swarm', 'algorithm_sweep', 'algorithm_scipy',
         'algorithm_nlopt', 'operators', 'job', 'datastore', 'results', 'surrogate', 'surrogate_scikit', 'archive', 'utils',
         'quality_indicator', 'doe', 'config', 'executor')
_snap = {}          # id(container) -> (container, import-time content, where)
_scanned = set()


def _restore_process_globals():
    """one run = one interpreter session.  Containers that live as long as the process - class-level lists/dicts/sets,
    mutable default arguments, module-level containers of the library - are put back to their import-time content, so that
    what a run sees never depends on the runs that preceded it in this worker (digests would differ, violations would not
    replay).  State of that kind that matters to a property is produced inside the run (second problems, decoy sessions)."""
    import copy
    import importlib
    import inspect
    if not _scanned:
        for m in _CORE:
            try:
                importlib.import_module('artap.' + m)
            except Exception:
                pass
    for name, mod in list(sys.modules.items()):
        if name in _scanned or mod is None or not name.startswith('artap.') or '.tests' in name:
            continue
        _scanned.add(name)

        def note(c, where):
            if isinstance(c, (list, dict, set)) and len(c) <= 1000 and id(c) not in _snap:
                try:
                    _snap[id(c)] = (c, copy.deepcopy(c), where)
                except Exception:
                    pass

        def note_fn(f, where):
            f = f.__func__ if isinstance(f, (staticmethod, classmethod)) else f
            if inspect.isfunction(f):
                for dflt in (f.__defaults__ or ()) + tuple((f.__kwdefaults__ or {}).values()):
                    note(dflt, where)

        for k, v in list(vars(mod).items()):
            if k.startswith('__'):
                continue
            if inspect.isclass(v) and v.__module__ == name:
                if issubclass(v, enum.Enum):
                    continue
                for a, b in list(vars(v).items()):
                    if not a.startswith('__'):
                        note(b, '%s.%s.%s' % (name, v.__name__, a))
                    note_fn(b, '%s.%s.%s()' % (name, v.__name__, a))
            elif inspect.isfunction(v) and v.__module__ == name:
                note_fn(v, '%s.%s()' % (name, k))
            else:
                note(v, '%s.%s' % (name, k))
    for c, orig, where in _snap.values():
        if c != orig:
            if isinstance(c, list):
                c[:] = copy.deepcopy(orig)
            else:
                c.clear()
                c.update(copy.deepcopy(orig))


_runs = [0]


def _gc_hygiene():
    """no cyclic garbage collection while a run is in progress: the worlds of earlier runs are cyclic garbage
    (problem <-> surrogate), artap's Problem has a Python-level __del__, and a collection that happens to fall into a
    simulated worker would execute library lines there - measured: with statement-level pre-emption the event-log digest then
    depended on the history of the process.  Garbage is collected between runs instead."""
    import gc
    if _runs[0] == 0:
        gc.disable()
    _runs[0] += 1
    if _runs[0] % 20 == 0:
        gc.collect()


def _reset_loggers():
    # Problem() adds a handler to a logger named after a (frozen) timestamp on every construction
    import logging
    for name, lg in list(logging.Logger.manager.loggerDict.items()):
        if name.endswith('-000000') and isinstance(lg, logging.Logger):
            lg.handlers.clear()


_dbn = [0]


def fresh_db(tag='db'):
    """path of a new, non-existing database file in the scratch directory"""
    d = seams.scratch_dir()
    _dbn[0] += 1
    path = os.path.join(d, '%s%d.sqlite' % (tag, _dbn[0]))
    remove_db(path)
    return path


def remove_db(path):
    for x in (path, path + '-journal', path + '-wal', path + '-shm'):
        try:
            os.remove(x)
        except FileNotFoundError:
            pass


def attach_store(world, path, **kw):
    from artap.datastore import SqliteDataStore
    with quiet():
        world.problem.data_store = SqliteDataStore(world.problem, database_name=path, **kw)
    return world.problem.data_store


def reopen_session(world, path, mode='write'):
    """a second session on the same file: a new Problem instance of the same user class, with a store opened in `mode`
    on the existing file (which loads the stored designs into problem.individuals); returns the loaded designs"""
    old = world.problem
    old.data_store = None
    world.problem = _make_problem(world)
    attach_store(world, path, mode=mode)
    return list(world.problem.individuals)


def open_view(path):
    """a read-mode view; artap never closes its connections, garbage collection does"""
    from artap.problem import ProblemViewDataStore
    from artap.individual import Individual
    saved = Individual.counter      # from_dict builds Individuals: reading must not shift the ids of the run under test
    try:
        with quiet():
            return ProblemViewDataStore(database_name=path)
    finally:
        Individual.counter = saved


KEEP_LOG = False

ALGOS = ('nsga2', 'epsmoea', 'omopso', 'smpso', 'psoga')


def make_algorithm(kind, world, N, G, workers=1, evaluator=None):
    """construct a population algorithm on world.problem with N individuals and G generations"""
    from artap.algorithm import EvaluatorType
    p = world.problem
    et = {None: None, 'simple': None, 'gradient': EvaluatorType.GRADIENT,
          'worst': EvaluatorType.WORST_CASE}[evaluator]
    with quiet():
        if kind == 'nsga2':
            from artap.algorithm_NSGAII import NSGAII
            a = NSGAII(p, evaluator_type=et) if et is not None else NSGAII(p)
        elif kind == 'epsmoea':
            from artap.algorithm_genetic import EpsMOEA
            a = EpsMOEA(p, evaluator_type=et) if et is not None else EpsMOEA(p)
        elif kind == 'omopso':
            from artap.algorithm_swarm import OMOPSO
            a = OMOPSO(p)
        elif kind == 'smpso':
            from artap.algorithm_swarm import SMPSO
            a = SMPSO(p)
        elif kind == 'psoga':
            from artap.algorithm_swarm import PSOGA
            a = PSOGA(p)
        else:
            raise ValueError(kind)
    if et is not None and kind in ('omopso', 'smpso', 'psoga'):
        _set_evaluator(a, et)
    a.options['max_population_size'] = N
    a.options['max_population_number'] = G
    a.options['max_processes'] = workers
    a.options['verbose_level'] = 0
    return a


def _set_evaluator(a, et):
    from artap.algorithm import EvaluatorType
    from artap.operators import GradientEvaluator, WorstCaseEvaluator
    if et == EvaluatorType.GRADIENT:
        a.evaluator = GradientEvaluator(a)
    elif et == EvaluatorType.WORST_CASE:
        a.evaluator = WorstCaseEvaluator(a)


def dummy_algorithm(world, workers=1, evaluator=None):
    from artap.algorithm import Algorithm, EvaluatorType
    et = {None: EvaluatorType.SIMPLE, 'simple': EvaluatorType.SIMPLE, 'gradient': EvaluatorType.GRADIENT,
          'worst': EvaluatorType.WORST_CASE}[evaluator]

    class BatchAlgorithm(Algorithm):
        def run(self):
            pass

    with quiet():
        a = BatchAlgorithm(world.problem, name='batch', evaluator_type=et)
    a.options['max_processes'] = workers
    return a


def gen_vector(world, D, stream, key):
    """a harness-generated design inside the box (grid of 2^-20 per coordinate)"""
    v = []
    for i, p in enumerate(world.params):
        lb, ub = p['bounds']
        x = lb + (ub - lb) * D.unit(stream, key + (i,))
        v.append(min(max(x, lb), ub))
    return v
