"""The `run` scenario family (DESIGN.md §5): a complete run() of a population algorithm
under the kernel, with configuration, failure plan and PRNG-extreme rate drawn from
the run's decisions.  Property modules attach their monitors and post-run oracles."""
from . import core, kernel, monitors, world as W

T = ('timeout', 'runtime')


class RunInfo:
    pass


def setup(D, pid, algos=W.ALGOS, fails=('none', 'light', 'heavy'), fail_weights=(3, 2, 1), p_exts=(0.0, 0.02, 0.2),
          p_ext_weights=(3, 1, 1), evaluator=None, store=False, precision=0, box=None, max_N=9, max_G=5,
          workers_weights=(3, 1, 1), n=None, m=None, ncons=None, quantised=None, with_tol=False, min_N=2):
    info = RunInfo()
    kind = D.pick('cfg', 'algo', algos)
    fail = fails[D.weighted('cfg', 'failrate', fail_weights[:len(fails)])]
    p_ext = p_exts[D.weighted('cfg', 'pext', p_ext_weights[:len(p_exts)])]
    sim = W.begin_run(D, p_ext=p_ext)
    ctx = core.Ctx(pid, D, sim)
    w = W.World(D, sim, fail=fail, precision=precision, box=box, n=n, m=m, ncons=ncons, quantised=quantised,
                with_tol=with_tol, name=pid.lower())
    N = min_N + D.size('cfg', 'N', max_N - min_N + 1)
    G = 1 + D.size('cfg', 'G', max_G)
    workers = 1 + D.weighted('cfg', 'rworkers', workers_weights)
    path = None
    if store:
        path = W.fresh_db(pid.lower())
        W.attach_store(w, path)
    alg = W.make_algorithm(kind, w, N, G, workers=workers, evaluator=evaluator)
    info.D, info.sim, info.ctx, info.w, info.alg = D, sim, ctx, w, alg
    info.kind, info.N, info.G, info.workers, info.fail, info.p_ext, info.path = kind, N, G, workers, fail, p_ext, path
    info.raised = None
    ctx.sample = {'family': 'run', 'algorithm': kind, 'N': N, 'G': G, 'workers': workers, 'fail': fail, 'p_ext': p_ext,
                  'n': w.n, 'm': w.m, 'signs': w.signs, 'ncons': w.ncons, 'box': w.boxkind, 'quantised': w.quantised,
                  'policy': sim.policy}
    return info


def execute(info):
    """run(); Deadlock/StepCap propagate (inconclusive), any other exception is recorded in info.raised"""
    try:
        with W.quiet():
            try:
                info.alg.run()
            except (kernel.Deadlock, kernel.StepCap):
                raise
            except Exception as e:
                info.raised = e
    finally:
        monitors.clear()
        if info.path:
            info.w.problem.data_store = None
            W.remove_db(info.path)
    w = info.w
    info.five = five_in_a_row(w)
    st = info.sim.stats
    ctx = info.ctx
    nfail = sum(st.get('obj_' + t, 0) for t in T)
    if nfail:
        ctx.probe('faults', nfail)
    if info.five:
        ctx.probe('five_in_a_row')
    from . import seams
    if seams.RNG.extremes:
        ctx.probe('prng_extreme', seams.RNG.extremes)
        st['prng_extreme'] = st.get('prng_extreme', 0) + seams.RNG.extremes
    ctx.sample['calls'] = len(w.calls)
    ctx.sample['failed_calls'] = nfail
    ctx.sample['prng_draws'] = seams.RNG.draws
    ctx.sample['prng_extremes'] = seams.RNG.extremes
    return info


def five_in_a_row(w):
    by = {}
    for c in w.calls:
        by.setdefault(c.obj, []).append(c.outcome)
    for outs in by.values():
        k = 0
        for o in outs:
            if o in T:
                k += 1
                if k >= 5:
                    return True
            else:
                k = 0
    return False


def judge_abort(info, site, clause='run_raised'):
    """common rule: run() may raise RuntimeError only if a design failed five times in a row"""
    ctx = info.ctx
    if info.five:
        ctx.outcome = 'sut_abort'
        return True
    if isinstance(info.raised, (TypeError, ArithmeticError, ValueError)) and overshoot(info.w):
        # observation O5 (DESIGN.md 8): gen_number rounds onto the precision grid and may exceed a bound by less than half
        # the precision (legal under C08); polynomial mutation of such a parent can take the root of a negative number
        # and the run dies in clip() (TypeError: complex); SBX of such a parent can hit pow(0.0, negative)
        # (ZeroDivisionError).  No listed property promises a result for a parent outside the strict box.
        ctx.outcome = 'sut_abort'
        ctx.probe('o5_precision_overshoot_crash')
        return True
    if info.raised is not None:
        ctx.violation('unexpected_exception' if clause is None else clause, site,
                      '%s run raised %r although no design failed five times in a row' % (info.kind, info.raised))
        return True
    return False


def overshoot(w):
    for c in w.calls:
        for x, p in zip(c.vector, w.params):
            if x < p['bounds'][0] or x > p['bounds'][1]:
                return True
    return False


def finish(info, *sigparts):
    ctx = info.ctx
    ctx.sig(info.kind, info.N, info.G, info.workers, info.fail, info.p_ext, info.w.n, info.w.m, info.w.ncons,
            info.w.boxkind, len(info.w.calls), tuple(round(c.vector[0], 9) for c in info.w.calls[-3:]), *sigparts)
    return core.result(ctx, info.sim)
