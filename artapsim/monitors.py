"""In-run monitor seams: public artap functions/methods are wrapped once per process; a
wrapper is a pass-through unless the running property check registered a hook for it.
A hook has the signature hook(orig, *args, **kwargs) and must call orig itself.
Nothing in /repo is edited: these are attribute assignments on imported modules/classes.
"""
import functools

from . import seams

HOOKS = {}
_installed = False


def _wrap_method(cls, name, key):
    orig = cls.__dict__[name]
    is_static = isinstance(orig, staticmethod)
    fn = orig.__func__ if is_static else orig

    if is_static:
        @functools.wraps(fn)
        def w(*a, **k):
            h = HOOKS.get(key)
            if h is None:
                return fn(*a, **k)
            return h(fn, *a, **k)
        setattr(cls, name, staticmethod(w))
    else:
        @functools.wraps(fn)
        def w(self, *a, **k):
            h = HOOKS.get(key)
            if h is None:
                return fn(self, *a, **k)
            return h(fn, self, *a, **k)
        setattr(cls, name, w)
    return fn


def _wrap_function(modules, name, key):
    """module-level function imported by name into several modules"""
    src = modules[0]
    fn = getattr(src, name)

    @functools.wraps(fn)
    def w(*a, **k):
        h = HOOKS.get(key)
        if h is None:
            return fn(*a, **k)
        return h(fn, *a, **k)
    for m in modules:
        if getattr(m, name, None) is fn:
            setattr(m, name, w)
    return fn


ORIG = {}


def install():
    global _installed
    if _installed:
        return
    seams.install()
    import artap.operators as ops
    import artap.individual as ind
    import artap.archive as ar
    import artap.algorithm_genetic as ge
    import artap.algorithm_NSGAII as ns
    import artap.algorithm_swarm as sw
    O = ORIG
    O['pareto_compare'] = _wrap_method(ops.ParetoDominance, 'compare', 'pareto_compare')
    O['eps_compare'] = _wrap_method(ops.EpsilonDominance, 'compare', 'eps_compare')
    O['pop_acceptance'] = _wrap_method(ops.Selector, 'pop_acceptance', 'pop_acceptance')
    O['sorting'] = _wrap_method(ops.Selector, 'fast_nondominated_sorting', 'sorting')
    O['tournament'] = _wrap_method(ops.TournamentSelector, 'select', 'tournament')
    O['truncate'] = _wrap_function([ops, ns, ge], 'nondominated_truncate', 'truncate')
    O['crowding'] = _wrap_function([ops, ns, ge, sw], 'crowding_distance', 'crowding')
    O['eq'] = _wrap_method(ind.Individual, '__eq__', 'eq')
    O['generate'] = _wrap_method(ge.GeneticAlgorithm, 'generate', 'generate')
    O['archive_add'] = _wrap_method(ar.Archive, 'add', 'archive_add')
    O['archive_truncate'] = _wrap_method(ar.Archive, 'truncate', 'archive_truncate')
    O['archive_remove'] = _wrap_method(ar.Archive, 'remove', 'archive_remove')
    O['sbx'] = _wrap_method(ops.SimulatedBinaryCrossover, 'cross', 'sbx')
    O['pm'] = _wrap_method(ops.PmMutator, 'mutate', 'pm')
    O['um'] = _wrap_method(ops.UniformMutator, 'mutate', 'um')
    O['num'] = _wrap_method(ops.NonUniformMutation, 'mutate', 'num')
    O['randgen'] = _wrap_method(ops.RandomGenerator, 'generate', 'randgen')
    O['pbest'] = _wrap_method(sw.SwarmAlgorithm, 'update_particle_best', 'pbest')
    O['velocity'] = _wrap_method(sw.SwarmAlgorithm, 'update_velocity', 'velocity')
    O['velocity_psoga'] = _wrap_method(sw.PSOGA, 'update_velocity', 'velocity')
    for cls in (sw.OMOPSO, sw.SMPSO, sw.PSOGA):
        O['position_' + cls.__name__] = _wrap_method(cls, 'update_position', 'position')
        O['gbest_' + cls.__name__] = _wrap_method(cls, 'update_global_best', 'gbest')
    _installed = True


def set_hooks(**hooks):
    install()
    HOOKS.clear()
    HOOKS.update(hooks)


def clear():
    HOOKS.clear()
