"""Coordinator: seeded search over simulated runs in a fork pool, determinism guard,
known-finding classification, minimisation, replay files, fresh-interpreter
confirmation and the evidence file (DESIGN.md §4.8, §4.9, §9, §10)."""
import argparse
import collections
import concurrent.futures as cf
import faulthandler
import importlib
import json
import multiprocessing
import os
import subprocess
import sys
import time
import traceback

from . import core
from .decisions import Decisions, derive_seed

VERIF = os.path.dirname(os.path.dirname(os.path.abspath(__file__)))
PYTHON = sys.executable
ALL = ['C01', 'C02', 'C03', 'C04', 'C05', 'C06', 'C07', 'C08', 'C09', 'C10', 'C11', 'C14', 'C17', 'C18', 'C19', 'C20']

QUICK_S = 40.0
THOROUGH_S = 600.0


def load(pid):
    return importlib.import_module('artapsim.props.' + pid.lower())


# ------------------------------------------------------------------ worker side
def _init_worker():
    faulthandler.enable()
    try:
        from . import seams
        seams.install()
        import multiprocessing.util as mu
        mu.Finalize(None, seams.cleanup_scratch, exitpriority=10)
    except Exception:
        traceback.print_exc()


def _work(pid, items, keep_log=False):
    """items: list of (label, seed, overrides); returns list of (label, result)"""
    mod = load(pid)
    out = []
    from . import world
    world.KEEP_LOG = keep_log
    for label, seed, ov in items:
        faulthandler.dump_traceback_later(240, exit=True)
        D = Decisions(seed, ov)
        r = core.guarded(pid, mod.run_one, D, None)
        faulthandler.cancel_dump_traceback_later()
        r['label'] = label
        out.append(r)
    return out


def _replay_in_worker(pid, overrides, keep_log=False):
    mod = load(pid)
    from . import world
    world.KEEP_LOG = keep_log
    D = Decisions(None, overrides)
    return core.guarded(pid, mod.run_one, D, None)


def _clauses(r):
    return sorted({v['clause'] for v in r.get('violations', [])})


def _minimise(pid, overrides, clause, max_exec=250, max_s=150.0):
    """shrink the override list while a violation of the same clause persists (pure re-runs)"""
    t0 = time.time()
    n = [0]

    def fails(ov):
        n[0] += 1
        r = _replay_in_worker(pid, ov)
        return r['outcome'] == 'violation' and clause in _clauses(r)

    ov = dict(overrides)
    if not fails(ov):
        return {'ok': False, 'overrides': ov, 'execs': n[0], 'why': 'override list alone does not reproduce'}

    def budget():
        return n[0] < max_exec and time.time() - t0 < max_s

    def keys_of(prefixes):
        return [k for k in ov if k.split('/', 1)[0] in prefixes]

    order = (('sched',), ('fault', 'prng'), ('work',), ('cfg', 'sut', 'crash'))
    for prefixes in order:
        keys = keys_of(prefixes)
        if not keys or not budget():
            continue
        trial = {k: v for k, v in ov.items() if k not in keys}
        if fails(trial):
            ov = trial
            continue
        chunk = max(1, len(keys) // 2)
        while chunk >= 1 and budget():
            i = 0
            while i < len(keys) and budget():
                drop = set(keys[i:i + chunk])
                trial = {k: v for k, v in ov.items() if k not in drop}
                if fails(trial):
                    ov = trial
                    keys = keys[:i] + keys[i + chunk:]
                else:
                    i += chunk
            chunk //= 2
    # numeric shrinking of what is left
    for k in sorted(ov):
        if not budget():
            break
        v = ov[k]
        for cand in (1, v // 2, v - 1):
            if 0 < cand < v and budget():
                trial = dict(ov)
                trial[k] = cand
                if fails(trial):
                    ov = trial
                    break
    return {'ok': True, 'overrides': ov, 'execs': n[0], 'seconds': round(time.time() - t0, 2)}


# ------------------------------------------------------------------ findings
def load_findings():
    p = os.environ.get('VERIF_FINDINGS') or os.path.join(VERIF, 'known_findings.json')
    if not os.path.exists(p):
        return []
    with open(p) as f:
        return json.load(f).get('findings', [])


def match_finding(findings, pid, v):
    for f in findings:
        if f.get('status') == 'open' and f['property'] == pid and f['clause'] == v['clause'] \
                and f.get('site', v['site']) == v['site']:
            return f
    return None


# ------------------------------------------------------------------ coordinator
class Agg:
    def __init__(self):
        self.runs = 0
        self.outcomes = collections.Counter()
        self.sigs = set()
        self.sched = set()
        self.stats = collections.Counter()
        self.probes = collections.Counter()
        self.vtime = 0.0
        self.checks = 0
        self.samples = []
        self.fault_runs = 0
        self.fault_free = 0
        self.first_seed = None
        self.last_seed = None
        self.ndec = 0
        self.viol = []
        self.errors = []
        self.known = collections.Counter()

    def add(self, r):
        self.runs += 1
        self.outcomes[r['outcome']] += 1
        if r['nontrivial']:
            self.sigs.add(r['sig'])
        for s in r['sched_sigs']:
            self.sched.add(s)
        for k, v in r['stats'].items():
            self.stats[k] += v
        for k, v in r['probes'].items():
            self.probes[k] += v
        self.vtime += r['vtime']
        self.checks += r['checks']
        self.ndec += r['ndec']
        if any(r['stats'].get(k) for k in FAULT_KEYS) or r['probes'].get('faults'):
            self.fault_runs += 1
        else:
            self.fault_free += 1
        if r['seed'] is not None:
            if self.first_seed is None:
                self.first_seed = r['seed']
            self.last_seed = r['seed']
        if len(self.samples) < 3 and r['outcome'] == 'ok' and r['nontrivial']:
            self.samples.append({'label': r.get('label'), 'seed': r['seed'], 'configuration': r['sample'],
                                 'nonzero_decisions': len(r['taken']),
                                 'decisions_head': dict(list(r['taken'].items())[:12]),
                                 'checks': r['checks'], 'virtual_seconds': round(r['vtime'], 3),
                                 'digest': r['digest']})


FAULT_KEYS = ('stall', 'busy_timeout', 'obj_timeout', 'obj_runtime', 'obj_value', 'obj_key', 'obj_zerodiv', 'obj_oserror', 'obj_abort',
              'prng_extreme', 'hook_decline', 'hook_accept', 'crash', 'reorder', 'duplicate', 'lock_conflict', 'foreign_lock')


def fresh_digests(pid, items_json, hashseed='4242'):
    env = dict(os.environ)
    env['PYTHONHASHSEED'] = hashseed
    p = subprocess.run([PYTHON, '-W', 'ignore', os.path.join(VERIF, 'check.py'), pid, '--digest', items_json],
                       capture_output=True, text=True, env=env, timeout=600)
    if p.returncode != 0:
        raise RuntimeError('digest subprocess failed: %s\n%s' % (p.stdout[-2000:], p.stderr[-4000:]))
    for line in p.stdout.splitlines():
        if line.startswith('DIGESTS '):
            return json.loads(line[8:])
    raise RuntimeError('digest subprocess printed no digests: ' + p.stdout[-2000:])


def run_check(pid, tier, verif_seed, procs, budget_s, max_runs=None, quiet_ok=False):
    t0 = time.time()
    mod = load(pid)
    if hasattr(mod, 'drive'):
        return mod.drive(tier, verif_seed, procs, budget_s)
    findings = load_findings()
    agg = Agg()
    fixed = list(mod.fixed_cases(tier)) if hasattr(mod, 'fixed_cases') else []
    ctx = multiprocessing.get_context('fork')
    chunk = getattr(mod, 'CHUNK', 25)
    guard_n = 3
    guard_items = [('g%d' % i, derive_seed(verif_seed, pid, i), {}) for i in range(guard_n)]
    exit_code = 0
    lines = []
    guard_msg = None
    with cf.ProcessPoolExecutor(max_workers=procs, mp_context=ctx, initializer=_init_worker) as pool:
        # ---- determinism guard: same seeds in two pool workers and in a fresh interpreter
        try:
            g1 = pool.submit(_work, pid, guard_items)
            g2 = pool.submit(_work, pid, guard_items)
            g3 = fresh_digests(pid, json.dumps([[l, s, o] for l, s, o in guard_items]))
            d1 = [r['digest'] for r in g1.result(timeout=600)]
            d2 = [r['digest'] for r in g2.result(timeout=600)]
            if not (d1 == d2 == g3):
                print('HARNESS-ERROR nondeterminism: digests differ %r %r %r' % (d1, d2, g3))
                return 2
            if any(r['outcome'] == 'harness_error' for r in g1.result()):
                print('HARNESS-ERROR in guard run:\n' + next(r.get('traceback', '') for r in g1.result()
                                                            if r['outcome'] == 'harness_error'))
                return 2
            guard_msg = '%d seeds x (2 pool workers + 1 fresh interpreter with another PYTHONHASHSEED): digests equal' % guard_n
        except Exception:
            print('HARNESS-ERROR determinism guard failed:\n' + traceback.format_exc())
            return 2
        # ---- search
        pending = set()
        next_run = 0
        fixed_pos = 0
        stop = False
        deadline = time.time() + budget_s      # the budget is search time; the determinism guard is not charged to it

        def submit_more():
            nonlocal next_run, fixed_pos
            while len(pending) < procs * 2 and not stop and time.time() < deadline \
                    and (max_runs is None or next_run < max_runs or fixed_pos < len(fixed)):
                items = []
                while fixed_pos < len(fixed) and len(items) < chunk:
                    label, ov = fixed[fixed_pos]
                    items.append((label, derive_seed(verif_seed, pid + 'fixed', fixed_pos), ov))
                    fixed_pos += 1
                while len(items) < chunk and (max_runs is None or next_run < max_runs):
                    items.append(('r%d' % next_run, derive_seed(verif_seed, pid, next_run), {}))
                    next_run += 1
                if not items:
                    break
                pending.add(pool.submit(_work, pid, items))

        submit_more()
        unknown = []
        while pending:
            done, _ = cf.wait(pending, timeout=5.0, return_when=cf.FIRST_COMPLETED)
            for fut in done:
                pending.discard(fut)
                try:
                    res = fut.result()
                except Exception:
                    agg.errors.append(traceback.format_exc())
                    stop = True
                    continue
                for r in res:
                    agg.add(r)
                    if r['outcome'] == 'harness_error':
                        agg.errors.append(r.get('traceback', '?'))
                        stop = True
                    elif r['outcome'] == 'violation':
                        new = []
                        for v in r['violations']:
                            f = match_finding(findings, pid, v)
                            if f is not None:
                                agg.known[(f['clause'], f.get('site', ''), f['what'])] += 1
                            else:
                                new.append(v)
                        if new:
                            unknown.append((r, new))
                            stop = True
            if time.time() > deadline + 120:
                stop = True
            submit_more()
            if stop and not pending:
                break
        fixed_done = fixed_pos >= len(fixed)
        # ---- report
        if agg.errors:
            print('HARNESS-ERROR (no verdict):\n' + agg.errors[0])
            exit_code = 2
        for (clause, site, what), cnt in sorted(agg.known.items()):
            lines.append('KNOWN-FINDING: property=%s %s [clause=%s site=%s runs=%d]' % (pid, what, clause, site, cnt))
        if unknown and exit_code == 0:
            exit_code, more = report_violation(pid, pool, unknown)
            lines.extend(more)
        sample_logs = []
        if exit_code == 0 and agg.samples:
            try:
                s0 = agg.samples[0]
                rr = pool.submit(_work, pid, [(s0['label'], s0['seed'],
                                               dict(_fixed_ov(fixed, s0['label'])))], True).result(timeout=300)[0]
                sample_logs = rr.get('head') or []
            except Exception:
                sample_logs = []
    wall = time.time() - t0
    if agg.runs == 0 and exit_code == 0:
        print('HARNESS-ERROR no run was executed within the budget (no verdict)')
        return 2
    write_evidence(pid, mod, tier, verif_seed, agg, wall, guard_msg, len(unknown), sample_logs,
                   len(fixed), fixed_done, procs)
    for ln in lines:
        print(ln)
    if exit_code == 0:
        zero = [k for k in getattr(mod, 'PROBES_EXPECTED', []) if not agg.probes.get(k) and not agg.stats.get(k)]
        print('OK property=%s tier=%s runs=%d distinct_nontrivial=%d outcomes=%s wall=%.1fs%s'
              % (pid, tier, agg.runs, len(agg.sigs), dict(agg.outcomes), wall,
                 (' probes_at_zero=%s' % zero) if zero else ''))
    return exit_code


def report_violation(pid, pool, unknown, max_candidates=20, min_args=()):
    """minimise, write the replay file and confirm it in a fresh interpreter.  A violation that only shows because of state
    that an earlier run left in the worker process (a cache inside the SUT) does not reproduce from its decision list in a
    fresh interpreter: such a candidate is skipped and the next violating run is tried; a minimised list that stops
    reproducing falls back to the full (confirmed) list.  Returns (exit code, output lines)."""
    lines = []
    skipped = 0
    last_out = ''
    # diverse candidates first: one per (clause, scenario family), then the rest
    seen, first, rest = set(), [], []
    for r, new in unknown:
        key = (new[0]['clause'], (r.get('sample') or {}).get('family'))
        (rest if key in seen else first).append((r, new))
        seen.add(key)
    for r, new in (first + rest)[:max_candidates]:
        clause = new[0]['clause']
        # 1. does the full decision list reproduce in a fresh interpreter?
        full = {'ok': True, 'overrides': dict(r['taken']), 'execs': 0}
        path = write_replay(pid, r, full, r, clause)
        ok, out = confirm_replay(pid, path, clause)
        if not ok:
            skipped += 1
            last_out = out
            continue
        # 2. minimise in a worker; keep the minimised list only if it still reproduces in a fresh interpreter
        try:
            m = pool.submit(_minimise, pid, r['taken'], clause, *min_args).result(timeout=1200)
        except Exception:
            m = {'ok': False, 'why': traceback.format_exc(), 'overrides': r['taken'], 'execs': 0}
        note = ''
        if m.get('ok'):
            rr = pool.submit(_replay_in_worker, pid, m['overrides'], True).result(timeout=600)
            path = write_replay(pid, r, m, rr, clause)
            ok2, _ = confirm_replay(pid, path, clause)
        else:
            ok2 = False
        if not ok2:
            rr = pool.submit(_replay_in_worker, pid, full['overrides'], True).result(timeout=600)
            path = write_replay(pid, r, full, rr, clause)
            m = full
            note = ' (not minimised: the minimised list did not reproduce in a fresh interpreter)'
        lines.append('VIOLATION property=%s replay=%s' % (pid, path))
        lines.append('  clause=%s site=%s: %s' % (clause, new[0]['site'], new[0]['text']))
        lines.append('  replay file holds %d non-zero decisions after %d re-executions%s; confirmed in a fresh interpreter%s'
                     % (len(m['overrides']), m.get('execs', 0), note,
                        ('; %d earlier candidate(s) depended on state left by other runs in the worker process and were skipped'
                         % skipped) if skipped else ''))
        return 1, lines
    print('HARNESS-ERROR %d violating run(s) found, none reproduces from its decision list in a fresh interpreter '
          '(first: %r): %s' % (min(len(unknown), max_candidates), unknown[0][1][0], last_out[-1200:]))
    return 2, lines


def _fixed_ov(fixed, label):
    for l, ov in fixed:
        if l == label:
            return ov
    return {}


def write_replay(pid, r, m, rr, clause):
    d = os.environ.get('VERIF_REPLAY_DIR') or os.path.join(VERIF, 'replays')
    os.makedirs(d, exist_ok=True)
    seedhex = '%x' % (r['seed'] if r['seed'] is not None else 0)
    path = os.path.join(d, '%s-%s.json' % (pid, seedhex))
    vio = [v for v in rr.get('violations', []) if v['clause'] == clause] or rr.get('violations', [])
    with open(path, 'w') as f:
        json.dump({'property': pid, 'found_with_seed': r['seed'], 'seed': None, 'clause': clause,
                   'overrides': m['overrides'], 'original_nonzero_decisions': len(r['taken']),
                   'minimisation': {'re_executions': m['execs'], 'seconds': m.get('seconds')},
                   'violation': vio[:3], 'configuration': rr.get('sample'),
                   'event_log_tail': rr.get('tail'),
                   'how_to_replay': './check %s --replay %s' % (pid, path)}, f, indent=1, default=str)
    return path


def confirm_replay(pid, path, clause):
    env = dict(os.environ)
    env['PYTHONHASHSEED'] = '777'
    p = subprocess.run([PYTHON, '-W', 'ignore', os.path.join(VERIF, 'check.py'), pid, '--replay', path],
                       capture_output=True, text=True, env=env, timeout=900)
    ok = p.returncode == 1 and ('clause=%s ' % clause) in p.stdout
    return ok, p.stdout + p.stderr


def write_evidence(pid, mod, tier, seed, agg, wall, guard_msg, nviol, sample_logs, nfixed, fixed_done, procs,
                   extra=None):
    d = os.environ.get('VERIF_EVIDENCE_DIR') or os.path.join(VERIF, 'evidence')
    os.makedirs(d, exist_ok=True)
    samples = list(agg.samples)
    if samples and sample_logs:
        samples[0] = dict(samples[0], event_log_head=sample_logs)
    if not samples:
        samples = [{'note': 'no completed non-trivial run to show'}]
    faults = {k: v for k, v in agg.stats.items() if k in FAULT_KEYS}
    expected = list(getattr(mod, 'PROBES_EXPECTED', []))
    cov = {
        'evaluations': agg.runs,
        'distinct_nontrivial': len(agg.sigs),
        'rule': mod.RULE,
        'samples': samples,
        'exhaustive': False,
        'runs_per_hour': int(agg.runs / wall * 3600) if wall > 0 else 0,
        'processes': procs,
        'seeds': {'verif_seed': seed, 'first_run_seed': agg.first_seed, 'last_run_seed': agg.last_seed,
                  'derivation': 'blake2b(VERIF_SEED|property|run#)'},
        'simulated_seconds': round(agg.vtime, 1),
        'faults_fired': faults,
        'counters': {k: v for k, v in agg.stats.items() if k not in FAULT_KEYS},
        'distinct_schedules': len(agg.sched),
        'distinct_end_states': len(agg.sigs),
        'oracle_clause_evaluations': agg.checks,
        'decisions_consulted': agg.ndec,
        'probes': dict(agg.probes),
        'probes_at_zero': [k for k in expected if not agg.probes.get(k) and not agg.stats.get(k)],
        'outcomes': dict(agg.outcomes),
        'fault_free_runs': agg.fault_free,
        'fault_runs': agg.fault_runs,
        'enumerated_cases': nfixed,
        'enumeration_complete': bool(fixed_done),
        'known_findings_hit': {('%s@%s' % (c, s)): n for (c, s, w), n in agg.known.items()},
        'components': getattr(mod, 'COMPONENTS', {}),
        'determinism_guard': guard_msg,
    }
    if extra:
        cov.update(extra)
    ev = {'property_id': pid, 'tier': tier, 'seed': int(seed), 'level': mod.LEVEL, 'coverage': cov,
          'assumptions': list(getattr(mod, 'ASSUMPTIONS', [])), 'wall_s': round(wall, 2), 'violations': int(nviol)}
    tmp = os.path.join(d, pid + '.json.tmp')
    with open(tmp, 'w') as f:
        json.dump(ev, f, indent=1, default=str)
    os.replace(tmp, os.path.join(d, pid + '.json'))


def do_replay(pid, path):
    with open(path) as f:
        rep = json.load(f)
    from . import seams
    seams.install()
    mod = load(pid)
    if hasattr(mod, 'replay_file'):
        return mod.replay_file(rep)
    r = _replay_in_worker(pid, rep['overrides'], True)
    if r['outcome'] == 'harness_error':
        print('HARNESS-ERROR during replay:\n' + r.get('traceback', ''))
        return 2
    if r['outcome'] == 'violation':
        for v in r['violations']:
            print('REPLAY-VIOLATION property=%s clause=%s site=%s: %s' % (pid, v['clause'], v['site'], v['text']))
        print('VIOLATION property=%s replay=%s' % (pid, path))
        return 1
    print('replay of %s: outcome %s (no violation)' % (path, r['outcome']))
    return 0


def do_digest(pid, items_json):
    from . import seams
    seams.install()
    items = [(l, s, o) for l, s, o in json.loads(items_json)]
    res = _work(pid, items)
    print('DIGESTS ' + json.dumps([r['digest'] for r in res]))
    return 0


def main(argv=None):
    ap = argparse.ArgumentParser(prog='check')
    ap.add_argument('property')
    ap.add_argument('--tier', default=os.environ.get('VERIF_TIER', 'quick'), choices=['quick', 'thorough'])
    ap.add_argument('--seed', type=int, default=None)
    ap.add_argument('--procs', type=int, default=int(os.environ.get('VERIF_PROCS', '0')) or min(16, os.cpu_count() or 4))
    ap.add_argument('--budget', type=float, default=None)
    ap.add_argument('--runs', type=int, default=None)
    ap.add_argument('--replay', default=None)
    ap.add_argument('--digest', default=None)
    a = ap.parse_args(argv)
    pid = a.property.upper()
    # every scratch directory of this invocation (pool workers, forked crash children, fresh interpreters) lives under one
    # directory that is removed when the invocation ends, however its processes ended
    import shutil
    import tempfile
    base = os.environ.get('VERIF_SCRATCH') or '/dev/shm'
    if not os.path.isdir(base):
        base = tempfile.gettempdir()
    run_dir = tempfile.mkdtemp(prefix='artap-verif-run-', dir=base)
    os.environ['VERIF_SCRATCH'] = run_dir
    try:
        return _main(a, pid)
    finally:
        shutil.rmtree(run_dir, ignore_errors=True)


def _main(a, pid):
    if a.replay:
        return do_replay(pid, a.replay)
    if a.digest:
        return do_digest(pid, a.digest)
    seed = a.seed
    if seed is None:
        try:
            seed = int(os.environ.get('VERIF_SEED', '1'))
        except ValueError:
            seed = 1
    budget = a.budget
    if budget is None:
        b = os.environ.get('VERIF_BUDGET_S')
        budget = float(b) if b else (QUICK_S if a.tier == 'quick' else THOROUGH_S)
    os.environ['VERIF_TIER'] = a.tier       # read by Decisions.scale(): the thorough tier widens the size decisions in half of its runs
    try:
        return run_check(pid, a.tier, seed, a.procs, budget, a.runs)
    except Exception:
        print('HARNESS-ERROR:\n' + traceback.format_exc())
        return 2
    finally:
        try:
            from . import seams
            seams.cleanup_scratch()
        except Exception:
            pass
