"""Simulator kernel (DESIGN.md §4.2–4.6): baton-passed real threads, seeded
scheduler, virtual clock with deadlines, event log + digest.

Exactly one thread runs at any time.  Worker threads exist only inside
`run_workers` (one parallel batch); outside it the algorithm's main task runs
alone and yield points only log and advance the clock.
"""
import hashlib
import sys
import threading

EPOCH = 1.0e9
_TOOL = 4      # sys.monitoring tool id (0-5 are free for tools)

POLICIES = ('random', 'pct', 'fifo', 'lifo', 'rr', 'starve')


class SimAbort(BaseException):
    """unwinds parked worker threads when a batch is abandoned"""


class Deadlock(Exception):
    pass


class StepCap(Exception):
    pass


class Livelock(Exception):
    """the SUT keeps retrying an SQL operation that keeps failing (deterministic cap instead of a
    RecursionError whose depth depends on the interpreter's stack)"""


LIVELOCK_CAP = 200     # consecutive failed SQL calls of ONE task without a successful write of that task


class Task:
    __slots__ = ('name', 'idx', 'sem', 'state', 'deadline', 'wake_reason', 'exc', 'prio', 'lockwait')

    def __init__(self, name, idx):
        self.name = name
        self.idx = idx
        self.sem = threading.Semaphore(0)
        self.state = 'run'          # run | blocked | done
        self.deadline = None
        self.wake_reason = None
        self.exc = None
        self.prio = 0
        self.lockwait = False


class Sim:
    def __init__(self, D, policy='random', stall_p=0.0, timed=False, keep_log=False, step_cap=None, line_p=0.0,
                 trace_prefix=None):
        self.D = D
        self.policy = policy
        self.stall_p = stall_p
        self.timed = timed
        self.now = EPOCH
        self.cur = 'main'
        self.tasks = {}
        self.order = []
        self.batch = 0
        self.step = 0
        self.step_cap = step_cap or 40000
        self.stats = {}
        self.keep_log = keep_log
        self.log = []
        self.tail = []
        self.nev = 0
        self._h = hashlib.sha256()
        self._sig = hashlib.sha1()
        self.sigs = []               # schedule signature per parallel batch
        self.aborting = None
        self.on_event = None         # crash trigger hook: fn(kind) called at every crash-eligible event
        self.starved = 0
        self.sql_errors_in_a_row = {}
        self.line_p = line_p              # probability of a pre-emption at a source line of the library (sys.settrace)
        self.trace_prefix = trace_prefix  # only frames whose file lies under this directory are traced
        self.line_no = 0
        self.foreign_lock = None     # (connection, virtual release time) of a simulated other process
        self._rr_last = -1
        self._alive = 0
        self._lock = threading.Lock()
        self.join_sem = None

    # ------------------------------------------------------------------ log
    def ev(self, kind, *detail):
        rec = (self.nev, round(self.now - EPOCH, 6), self.cur, kind) + detail
        self.nev += 1
        self._h.update(repr(rec).encode())
        if self.keep_log:
            self.log.append(rec)
        else:
            t = self.tail
            t.append(rec)
            if len(t) > 80:
                del t[:40]

    def stat(self, k, n=1):
        self.stats[k] = self.stats.get(k, 0) + n

    def digest(self):
        return self._h.hexdigest()[:20]

    def log_tail(self, n=40):
        src = self.log if self.keep_log else self.tail
        return [list(map(_plain, r)) for r in src[-n:]]

    def log_head(self, n=30):
        src = self.log if self.keep_log else self.tail
        return [list(map(_plain, r)) for r in src[:n]]

    def vtime(self):
        return self.now - EPOCH

    # ------------------------------------------------------------ scheduling
    def active(self):
        return bool(self.tasks) and self.aborting is None

    def crash_point(self, kind):
        if self.on_event is not None:
            self.on_event(kind)

    def _choose(self):
        """returns the name of the next task to run, or None when all are done"""
        D = self.D
        while True:
            self.step += 1
            if self.step > self.step_cap:
                raise StepCap()
            tasks = self.tasks
            for n in self.order:
                t = tasks[n]
                if t.state == 'blocked' and t.deadline is not None and self.now >= t.deadline:
                    t.state = 'run'
                    if t.wake_reason is None:
                        t.wake_reason = 'timeout'
            runnable = [n for n in self.order if tasks[n].state == 'run']
            if not runnable:
                dl = [tasks[n].deadline for n in self.order
                      if tasks[n].state == 'blocked' and tasks[n].deadline is not None]
                if not dl:
                    if all(tasks[n].state == 'done' for n in self.order):
                        return None
                    raise Deadlock()
                self.now = max(self.now, min(dl))
                continue
            k = len(runnable)
            if k == 1:
                return runnable[0]
            pol = self.policy
            if pol == 'random':
                i = D.dec('sched', (self.batch, self.step), k)
            elif pol == 'fifo':
                i = 0
            elif pol == 'lifo':
                i = k - 1
            elif pol == 'rr':
                nxt = [j for j, n in enumerate(runnable) if tasks[n].idx > self._rr_last]
                i = nxt[0] if nxt else 0
                # a seeded hiccup keeps rr from being a single schedule
                if D.flag('sched', ('rrskip', self.batch, self.step), 0.1):
                    i = (i + 1) % k
                self._rr_last = tasks[runnable[i]].idx
            elif pol == 'starve':
                cand = [j for j, n in enumerate(runnable) if tasks[n].idx != self.starved]
                if cand:
                    i = cand[D.dec('sched', (self.batch, self.step), len(cand))]
                else:
                    i = 0
            else:  # pct
                if D.flag('sched', ('chg', self.batch, self.step), 0.06):
                    hi = max(runnable, key=lambda n: (tasks[n].prio, -tasks[n].idx))
                    tasks[hi].prio = -self.step
                best = max(runnable, key=lambda n: (tasks[n].prio, -tasks[n].idx))
                i = runnable.index(best)
            return runnable[i]

    def yield_point(self, kind, latency=0.0, crash=True):
        """a pre-emption point of the current task; `latency` is the virtual duration of the
        operation that starts here"""
        self.ev('y', kind)
        if crash and self.on_event is not None:
            self.on_event(kind)
        if not self.tasks:
            self.now += latency
            return
        if self.aborting is not None:
            raise SimAbort()
        me = self.cur
        self._sig.update((me + ':' + kind + ';').encode())
        t = self.tasks[me]
        sleep = latency if self.timed else 0.0
        if self.stall_p and self.D.flag('fault', ('stall', self.batch, self.step), self.stall_p):
            sleep += 6.0 + self.D.dec('fault', ('stalllen', self.batch, self.step), 55)
            self.stat('stall')
            self.ev('stall', me)
        if sleep > 0.0:
            t.state = 'blocked'
            t.deadline = self.now + sleep
            t.wake_reason = 'timer'
        self._handoff(me)

    # ---- statement-level pre-emption (optional): LINE events of sys.monitoring (PEP 669) inside the library are yield
    # points.  sys.settrace is not used: it snapshots frame locals, which creates reference cycles (exception -> traceback ->
    # frame -> locals snapshot -> exception) that keep SQLite connections alive until the cyclic GC runs - measured: the
    # event-log digest then depended on the history of the process.
    def _on_line(self, code, lineno):
        if not code.co_filename.startswith(self.trace_prefix):
            return sys.monitoring.DISABLE
        if self.tasks and self.aborting is None and threading.current_thread().name.startswith('sim-w'):
            self.line_no += 1
            if self.D.flag('sched', ('line', self.batch, self.line_no), self.line_p):
                self.stat('line_preemptions')
                self.yield_point('line:%s:%d' % (code.co_name, lineno), 0.0, crash=False)
        return None

    def _lines_on(self):
        mon = getattr(sys, 'monitoring', None)
        if mon is None or not (self.line_p > 0.0 and self.trace_prefix):
            return False
        try:
            if mon.get_tool(_TOOL) is None:
                mon.use_tool_id(_TOOL, 'artapsim')
            mon.register_callback(_TOOL, mon.events.LINE, self._on_line)
            mon.set_events(_TOOL, mon.events.LINE)
            return True
        except Exception:
            return False

    @staticmethod
    def _lines_off():
        mon = getattr(sys, 'monitoring', None)
        if mon is not None:
            try:
                mon.set_events(_TOOL, 0)
                mon.register_callback(_TOOL, mon.events.LINE, None)
            except Exception:
                pass

    def block_on_lock(self, deadline):
        """park the current task until a lock release or the deadline; returns 'released'|'timeout'"""
        me = self.cur
        t = self.tasks[me]
        t.state = 'blocked'
        t.deadline = deadline
        t.wake_reason = None
        t.lockwait = True
        try:
            self._handoff(me)
        finally:
            t.lockwait = False
        return t.wake_reason

    def wake_lock_waiters(self):
        if self.aborting is not None:
            return
        for n in self.order:
            t = self.tasks.get(n)
            if t is not None and t.state == 'blocked' and t.lockwait and t.wake_reason is None:
                t.state = 'run'
                t.wake_reason = 'released'

    def _abort(self, exc):
        """called by the thread that detected Deadlock/StepCap: release everybody, unwind"""
        self.aborting = exc
        for n in self.order:
            t = self.tasks[n]
            if t.state != 'done' and n != self.cur:
                t.sem.release()
        raise SimAbort()

    def _handoff(self, me):
        try:
            nxt = self._choose()
        except (Deadlock, StepCap) as e:
            self._abort(e)
        t = self.tasks[me]
        if nxt == me:
            t.deadline = None
            return
        self.cur = nxt
        self.tasks[nxt].sem.release()
        t.sem.acquire()
        if self.aborting is not None:
            raise SimAbort()
        t.deadline = None

    def run_workers(self, fns):
        """run one callable per worker thread under the scheduler; the caller (main task) is
        parked until all are done.  Returns the list of (worker index, exception)."""
        if self.tasks:
            raise RuntimeError('nested parallel section')
        D = self.D
        self.batch += 1
        self.step = 0
        self.line_no = 0
        self._sig = hashlib.sha1()
        self._rr_last = -1
        self.join_sem = threading.Semaphore(0)
        self.order = []
        tasks = {}
        threads = []
        self._alive = len(fns)
        self.starved = D.dec('sched', ('starved', self.batch), len(fns)) if self.policy == 'starve' else 0
        self.ev('par_begin', len(fns))

        def finish():
            with self._lock:
                self._alive -= 1
                last = self._alive == 0
            if last:
                self.join_sem.release()

        for i, fn in enumerate(fns):
            name = 'w%d' % i
            t = Task(name, i)
            if self.policy == 'pct':
                t.prio = 1 + D.dec('sched', ('prio', self.batch, i), 1000)
            tasks[name] = t
            self.order.append(name)

            def body(fn=fn, t=t):
                t.sem.acquire()
                if self.aborting is not None:
                    t.state = 'done'
                    finish()
                    return
                try:
                    fn()
                except SimAbort:
                    t.state = 'done'
                    finish()
                    return
                except BaseException as e:  # noqa: the SUT may raise anything
                    t.exc = e
                t.state = 'done'
                self.ev('task_done')
                try:
                    nxt = self._choose()
                except (Deadlock, StepCap) as e:
                    self.aborting = e
                    for n in self.order:
                        o = self.tasks[n]
                        if o.state != 'done':
                            o.sem.release()
                    finish()
                    return
                if nxt is not None:
                    self.cur = nxt
                    self.tasks[nxt].sem.release()
                finish()

            th = threading.Thread(target=body, daemon=True, name='sim-' + name)
            threads.append(th)
        self.tasks = tasks
        lines = self._lines_on()
        for th in threads:
            th.start()
        try:
            first = self._choose()
        except (Deadlock, StepCap) as e:   # cannot happen with fresh runnable tasks, but stay safe
            self.aborting = e
            for n in self.order:
                tasks[n].sem.release()
            first = None
        if first is not None:
            self.cur = first
            tasks[first].sem.release()
        self.join_sem.acquire()
        for th in threads:
            th.join()
        if lines:
            self._lines_off()
        self.cur = 'main'
        self.sigs.append(self._sig.hexdigest()[:12])
        excs = [(tasks[n].idx, tasks[n].exc) for n in self.order if tasks[n].exc is not None]
        self.tasks = {}
        self.order = []
        if self.aborting is not None:
            e = self.aborting
            self.aborting = None
            self.ev('par_abort', type(e).__name__)
            raise e
        self.ev('par_end')
        return excs


def _plain(x):
    if isinstance(x, (int, float, str, bool)) or x is None:
        return x
    if isinstance(x, (tuple, list)):
        return [_plain(y) for y in x]
    return repr(x)
