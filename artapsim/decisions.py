"""Keyed, counter-based decisions (DESIGN.md §4.1).

A run is a pure function of (code, scenario, decisions).  Every choice the
simulator or a workload generator makes is `dec(stream, key, n)`: a value in
[0, n) derived from blake2b(seed | stream | key), or taken from `overrides`
when the key is listed there.  There is no sequential PRNG state, so removing
one decision never shifts another and logging cannot perturb a run.

Convention: 0 is always the simplest choice (no fault, first runnable task,
smallest size, ordinary draw).  `taken` records every non-zero decision that
was actually consulted; replaying with seed=None and overrides=taken
reproduces the run exactly.
"""
import hashlib
import os
import struct

_UNIT_BITS = 20
_UNIT_N = 1 << _UNIT_BITS


def keystr(stream, key):
    return stream + '/' + repr(key)


class Decisions:
    __slots__ = ('seed', 'ov', 'taken', '_pfx', 'consulted', 'frozen_zero')

    def __init__(self, seed=None, overrides=None):
        self.seed = seed
        self.ov = dict(overrides or {})
        self.taken = {}
        self.consulted = 0
        self._pfx = (str(seed) + '|').encode() if seed is not None else None

    def _raw(self, k):
        h = hashlib.blake2b(self._pfx + k.encode(), digest_size=8).digest()
        return struct.unpack('<Q', h)[0]

    def dec(self, stream, key, n):
        """integer in [0, n)"""
        self.consulted += 1
        if n <= 1:
            return 0
        k = stream + '/' + repr(key)
        if k in self.ov:
            v = int(self.ov[k]) % n
        elif self._pfx is None:
            v = 0
        else:
            v = self._raw(k) % n
        if v:
            self.taken[k] = v
        return v

    def scale(self):
        """1 in the ordinary configuration space; 3 in half of the runs of the thorough tier (VERIF_TIER=thorough), which
        widens every size decision (population size, generations, history lengths) - or whenever the replayed decision list
        says so, so that a replay file does not depend on the tier it is replayed under"""
        k = "cfg/'scale'"
        if k in self.ov:
            on = bool(self.ov[k])
        elif self._pfx is None or os.environ.get('VERIF_TIER') != 'thorough':
            on = False
        else:
            on = bool(self._raw(k) & 1)
        if on:
            self.taken[k] = 1
        return 3 if on else 1

    def size(self, stream, key, n):
        """a size decision in [0, n) - [0, 3n) in scaled-up runs"""
        return self.dec(stream, key, n * self.scale())

    def flag(self, stream, key, p):
        """True with probability p (seeded); replay: True iff listed"""
        self.consulted += 1
        k = stream + '/' + repr(key)
        if k in self.ov:
            b = bool(self.ov[k])
        elif self._pfx is None or p <= 0.0:
            b = False
        else:
            b = (self._raw(k) >> 11) * (1.0 / (1 << 53)) < p
        if b:
            self.taken[k] = 1
        return b

    def unit(self, stream, key):
        """float in [0, 1) on a 2^-20 grid (so that it can be listed as an integer override)"""
        return self.dec(stream, key, _UNIT_N) / _UNIT_N

    def pick(self, stream, key, seq):
        return seq[self.dec(stream, key, len(seq))]

    def weighted(self, stream, key, weights):
        """index chosen with the given integer weights; index 0 is the simplest"""
        tot = sum(weights)
        v = self.dec(stream, key, tot)
        # value 0 must map to index 0: walk cumulative weights
        acc = 0
        for i, w in enumerate(weights):
            acc += w
            if v < acc:
                return i
        return len(weights) - 1


def derive_seed(verif_seed, prop, run_no):
    h = hashlib.blake2b(('%d|%s|%d' % (verif_seed, prop, run_no)).encode(), digest_size=8).digest()
    return struct.unpack('<Q', h)[0] >> 1
