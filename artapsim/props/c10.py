"""C10 – SQLite store round-trips problem and individuals; one row per id, last write wins.

Families: `store` (generated histories of sync_individual / sync_all / mutate / view
over harness-built individuals: finite and infinite floats, numpy scalars, nested
custom data, parent/child/feature references, repeated ids) and `run` (every
synchronising algorithm with a store attached).  Oracle: a reference dict
id -> fields at the last returned synchronisation, built by the harness directly
from the attributes (not through artap's to_dict), compared through a read-mode
view and raw row counts.
"""
import json
import math

from .. import core, kernel, runfam, world as W
from ..decisions import Decisions

PID = 'C10'
LEVEL = 'exploration'
RULE = ('one case = one history against a fresh SQLite file: either 1-20 generated store operations (sync_individual of a '
        'new or already stored individual, mutation of a stored individual, sync_all, read-mode view) over 1-8 '
        'individuals with special float values / numpy scalars / nested custom data / references, or one complete run '
        'of NSGA-II, eps-MOEA, OMOPSO, SMPSO, PSOGA, Sweep, ScipyOpt, NLopt, CMA-ES, CEM or Monte-Carlo with a store.  Non-trivial = at least one '
        'row was compared field by field through a read-mode view; distinct = hash of (family, operation kinds or '
        'algorithm configuration, number of rows, special-value classes used).')
ASSUMPTIONS = [
    'float bounds and float costs (observation O1: integer bounds give numpy.int64 signed costs that json rejects)',
    'NaN is not generated (NaN != NaN makes "the same value" undefined); +-inf is',
    'single writer thread (C07 covers concurrent writers); a simulated foreign process may hold the database lock for 3-70 virtual '
    'seconds across a synchronisation (fault kind foreign_lock)',
    'timing features (start_time / finish_time) are compared like any other feature: the clock is virtual',
]
COMPONENTS = {
    'real': ['artap.datastore.SqliteDataStore', 'artap.individual.Individual.to_dict/from_dict', 'artap.problem.ProblemViewDataStore',
             'python sqlite3 + libsqlite3 on a tmpfs file', 'run family: the algorithms named in the rule'],
    'stub': ['user objective (harness world)', 'time.time', 'uuid1', 'joblib (unused: single writer)'],
}
PROBES_EXPECTED = ['stored_out_of_creation_order', 'single_connection_store', 'reopened_session', 'reopened_in_new_process', 'repeated_id', 'rewrite_over_other_problem', 'foreign_lock', 'resync_same_id', 'inf_value', 'numpy_scalar', 'reference_to_individual', 'nested_custom', 'sync_all',
                   'run_family', 'view_mid_history']

FIELDS = ('vector', 'costs', 'costs_signed', 'population_id', 'custom', 'features')


def plain(v):
    """harness-side canonical form: Individuals -> ids, numpy -> python, tuples -> lists, floats kept exact"""
    from artap.individual import Individual
    import numpy as np
    if isinstance(v, Individual):
        return v.id
    if isinstance(v, (bool, np.bool_)):
        return bool(v)
    if isinstance(v, (np.floating,)):
        return float(v)
    if isinstance(v, (np.integer,)):
        return int(v)
    if isinstance(v, np.ndarray):
        return [plain(x) for x in v.tolist()]
    if isinstance(v, dict):
        return {str(k): plain(x) for k, x in v.items()}
    if isinstance(v, (list, tuple)):
        return [plain(x) for x in v]
    return v


def canon(v):
    """comparable form: floats by repr (bit-exact for finite values, 'inf' for infinities)"""
    if isinstance(v, bool) or v is None or isinstance(v, (int, str)):
        return v
    if isinstance(v, float):
        return 'f:' + repr(v)
    if isinstance(v, dict):
        return {k: canon(x) for k, x in sorted(v.items())}
    if isinstance(v, (list, tuple)):
        return [canon(x) for x in v]
    return 'o:' + repr(v)


def model_of(ind):
    return {'vector': plain(list(ind.vector)), 'costs': plain(list(ind.costs)), 'costs_signed': plain(list(ind.costs_signed)),
            'population_id': plain(ind.population_id), 'custom': plain(ind.custom), 'features': plain(ind.features)}


def row_of(r):
    return {'vector': plain(r.vector), 'costs': plain(r.costs), 'costs_signed': plain(r.costs_signed),
            'population_id': plain(r.population_id), 'custom': plain(r.custom), 'features': plain(r.features)}


def raw_counts(path):
    import sqlite3
    c = sqlite3.connect(path)
    try:
        return dict(c.execute('select id, count(*) from individuals group by id').fetchall())
    finally:
        c.close()


def compare_view(ctx, path, model, definition, site, complete=True):
    try:
        v = W.open_view(path)
    except Exception as e:
        ctx.violation('row_missing', site, 'read-mode view cannot open the store: %r' % (e,))
        return
    if definition is not None:
        got = {'name': v.name, 'parameters': plain(v.parameters), 'costs': plain(v.costs)}
        if canon(got) != canon(definition):
            ctx.violation('problem_definition', site, 'view returns %r, store was created for %r' % (got, definition))
    rows = {}
    for r in v.individuals:
        if r.id in rows:
            ctx.violation('row_duplicate', site, 'id %r appears twice in the view' % (r.id,))
        rows[r.id] = r
    for i, c in raw_counts(path).items():
        if c != 1:
            ctx.violation('row_duplicate', site, 'id %r has %d rows' % (i, c))
    for i, m in model.items():
        ctx.check()
        if i not in rows:
            ctx.violation('row_missing', site, 'synchronised individual id %d has no row' % i)
            continue
        got = row_of(rows[i])
        for f in FIELDS:
            if canon(got[f]) != canon(m[f]):
                ctx.violation('field_ne_model', site, 'id %d field %s: view returns %r, last synchronised value %r'
                              % (i, f, got[f], m[f]))
                break
    if complete:
        extra = [i for i in rows if i not in model]
        if extra:
            ctx.violation('row_extra', site, 'rows for ids %r that were never synchronised' % (extra[:5],))


def definition_of(p):
    return {'name': p.name, 'parameters': plain([dict(q) for q in p.parameters]), 'costs': plain([dict(c) for c in p.costs])}


SPECIAL = (0.0, -0.0, 1e-320, 5e-324, 1.7976931348623157e308, -1.7976931348623157e308, float('inf'), float('-inf'),
           0.1, 1 / 3, 2 ** 53 + 2.0, 1e-7, 123456789.123456789)


def run_one(D, opts=None):
    if D.weighted('cfg', 'family', (3, 2)) == 0:
        return _store(D)
    return _run(D)


def _special(D, ctx, key, base):
    import numpy as np
    c = D.weighted('work', key + ('sp',), (6, 2, 1))
    if c == 0:
        return base
    if c == 1:
        v = SPECIAL[D.dec('work', key + ('spv',), len(SPECIAL))]
        if math.isinf(v):
            ctx.probe('inf_value')
        return v
    ctx.probe('numpy_scalar')
    return np.float64(base)


def _mk_custom(D, ctx, key):
    c = D.dec('work', key + ('cu',), 4)
    if c == 0:
        return {}
    if c == 1:
        return {'tag': 'a%d' % D.dec('work', key + ('cv',), 5), 'n': D.dec('work', key + ('cn',), 100)}
    ctx.probe('nested_custom')
    if c == 2:
        return {'files': ['out.txt', 'mesh.msh'], 'meta': {'iter': [1, 2, 3], 'ok': True, 'none': None, 'x': 0.1 + 0.2}}
    return {'deep': {'a': {'b': {'c': [[], [1.5, [2.5, {'z': 'ž'}]]]}}}, 'unicode': 'čř', 'empty': {}}


def _store(D):
    from artap.individual import Individual
    sim = W.begin_run(D)
    ctx = core.Ctx(PID, D, sim)
    w = W.World(D, sim, fail='none', name='c10 store "x"')
    path = W.fresh_db('c10')
    p = w.problem
    definition = definition_of(p)
    mode = {}
    try:
        if D.dec('cfg', 'rewrite', 5) == 1:
            # the file already exists and was written for ANOTHER problem (other parameter / cost names, other individuals);
            # opening it with mode="rewrite" must leave nothing of the old content behind
            old = W.World(Decisions(None, {"cfg/'names'": 0 if p.parameters[0]['name'] != 'x0' else 2, "cfg/'n'": 4, "cfg/'m'": 3}),
                          sim, fail='none', name='previous study')
            ostore = W.attach_store(old, path)
            for k in range(1 + D.dec('work', 'oldrows', 3)):
                oi = Individual(W.gen_vector(old, D, 'work', ('ov', k)))
                oi.id = 1000 + k
                oi.costs = old.f(oi.vector)
                with W.quiet():
                    ostore.sync_individual(oi)
            old.problem.data_store = None
            ostore = None
            mode = {'mode': 'rewrite'}
            ctx.probe('rewrite_over_other_problem')
        if D.dec('cfg', 'single_connection', 5) == 1:
            # the documented non-default option: one cached connection instead of one connection per call
            mode['thread_safe'] = False
            ctx.probe('single_connection_store')
        store = W.attach_store(w, path, **mode)
    except (kernel.Deadlock, kernel.StepCap):
        raise
    except Exception as e:
        if type(e).__name__ == 'HarnessError':
            raise
        ctx.violation('unexpected_exception', 'SqliteDataStore', 'creating the store raised %r' % (e,))
        w.problem.data_store = None
        W.remove_db(path)
        ctx.sample = {'family': 'store', 'ops': ['create'], 'individuals': 0}
        return core.result(ctx, sim)
    site = 'SqliteDataStore'
    nops = 1 + D.size('cfg', 'nops', 20)
    pool = []
    model = {}
    kinds = []
    try:
        for o in range(nops):
            kind = ('new', 'resync', 'mutate', 'sync_all', 'view')[D.weighted('work', ('op', o), (4, 2, 3, 1, 1))]
            if pool and D.flag('work', ('reopen', o), 0.08):
                kind = 'reopen'
            if kind in ('resync', 'mutate') and not pool:
                kind = 'new'
            kinds.append(kind)
            sim.ev('op', o, kind)
            locked_this_op = False
            if kind in ('new', 'resync', 'sync_all') and D.flag('fault', ('foreign_lock', o), 0.12):
                locked_this_op = True
                # another process (a viewer, a backup) holds the database exclusively for a while: the synchronisation that
                # follows must still have written its row when it returns
                from .. import seams
                seams.take_foreign_lock(sim, path, (3.0, 12.0, 31.0, 70.0)[D.dec('fault', ('foreign_hold', o), 4)])
                ctx.probe('foreign_lock')
            if kind == 'reopen':
                # a later session continues on the file: a new Problem with a store in the default mode "write", which loads
                # the stored individuals into problem.individuals; in a new interpreter the id counter starts again, so
                # designs recorded from now on may repeat stored ids (synchronising an id again replaces its row)
                if D.dec('work', ('newproc', o), 2) == 1:
                    Individual.counter = 0          # a new interpreter: the id counter starts again, then the file is read
                    ctx.probe('reopened_in_new_process')
                loaded = W.reopen_session(w, path)
                p = w.problem
                store = p.data_store
                pool = list(loaded)
                ctx.probe('reopened_session')
                if definition_of(p) != definition:
                    ctx.violation('problem_definition', site, 'a session that re-opens the file reads the definition %r, the store '
                                  'was created for %r' % (definition_of(p), definition))
            elif kind == 'new':
                ind = Individual(W.gen_vector(w, D, 'work', ('v', o)))
                k = ('o', o)
                if ind.id in model:
                    # the library itself gave a new design the id of a stored one: its row will replace that design's row, and
                    # the store no longer holds the final data of every recorded individual
                    ctx.violation('id_reused', site, 'a design created after the file was re-opened received id %d, which a stored '
                                  'design already has (stored ids %r): synchronising it replaces that design\'s row'
                                  % (ind.id, sorted(model)[:8]))
                    break
                if pool and D.dec('work', k + ('dupid',), 8) == 1:
                    # repeated id: this record supersedes an earlier one that is still listed in problem.individuals
                    ind.id = pool[D.dec('work', k + ('dupi',), len(pool))].id
                    ctx.probe('repeated_id')
                ind.vector = [_special(D, ctx, k + ('x', i), x) for i, x in enumerate(ind.vector)]
                if D.dec('work', k + ('ev',), 3):
                    ind.costs = [_special(D, ctx, k + ('c', j), c) for j, c in enumerate(w.f(W.gen_vector(w, D, 'work', ('v', o))))]
                    ind.calc_signed_costs(w.signs)
                    ind.state = ind.State.EVALUATED
                ind.population_id = D.dec('work', k + ('pop',), 4) - 1
                ind.custom = _mk_custom(D, ctx, k)
                if pool and D.dec('work', k + ('ref',), 3) == 1:
                    other = pool[D.dec('work', k + ('refi',), len(pool))]
                    ind.parents.append(other)
                    other.children.append(ind)
                    ind.features['leader'] = other
                    ind.features['neighbours'] = [other, ind]
                    ctx.probe('reference_to_individual')
                if D.dec('work', k + ('cd',), 3) == 1:
                    ind.features['crowding_distance'] = float('inf')
                    ctx.probe('inf_value')
                second = None
                if D.dec('work', k + ('pair',), 5) == 1:
                    # two designs of one batch whose workers finish in the opposite order: the younger one (higher id) is stored
                    # first, so the rows of the file are not in id order
                    second = Individual(W.gen_vector(w, D, 'work', ('v2', o)))
                    if second.id in model:
                        ctx.violation('id_reused', site, 'a design created after the file was re-opened received id %d, which a '
                                      'stored design already has (stored ids %r)' % (second.id, sorted(model)[:8]))
                        break
                    second.costs = w.f(second.vector)
                    second.calc_signed_costs(w.signs)
                    second.state = second.State.EVALUATED
                    second.population_id = ind.population_id
                    ctx.probe('stored_out_of_creation_order')
                p.individuals.append(ind)
                pool.append(ind)
                if second is not None:
                    p.individuals.append(second)
                    pool.append(second)
                    with W.quiet():
                        store.sync_individual(second)
                    model[second.id] = model_of(second)
                with W.quiet():
                    store.sync_individual(ind)
                model[ind.id] = model_of(ind)
            elif kind == 'resync':
                ind = pool[D.dec('work', ('ri', o), len(pool))]
                with W.quiet():
                    store.sync_individual(ind)
                model[ind.id] = model_of(ind)
                ctx.probe('resync_same_id')
            elif kind == 'mutate':
                ind = pool[D.dec('work', ('mi', o), len(pool))]
                c = D.dec('work', ('mk', o), 4)
                if c == 0:
                    ind.population_id = 5 + o
                elif c == 1:
                    ind.costs = [_special(D, ctx, ('m', o, 'c', j), c_) for j, c_ in enumerate(w.f(ind.vector if all(
                        isinstance(x, float) and math.isfinite(x) and abs(x) < 1e9 for x in ind.vector) else
                        W.gen_vector(w, D, 'work', ('mv', o))))]
                    ind.calc_signed_costs(w.signs)
                elif c == 2:
                    ind.features['front_number'] = o
                    ind.features['velocity'] = [0.5 * o, -1.0 / (o + 1)]
                else:
                    ind.custom = _mk_custom(D, ctx, ('m', o))
                if D.dec('work', ('msync', o), 2) == 0:
                    with W.quiet():
                        store.sync_individual(ind)
                    model[ind.id] = model_of(ind)
                    ctx.probe('resync_same_id')
            elif kind == 'sync_all':
                failed = False
                try:
                    with W.quiet():
                        store.sync_all()
                except Exception as e:
                    # sync_all has no retry: under a foreign lock that outlasts the busy time-out it fails as a whole
                    # (one transaction, nothing written, nothing acknowledged) - a failed operation, not wrong data
                    if not locked_this_op or 'locked' not in str(e):
                        raise
                    failed = True
                    ctx.probe('sync_all_failed_under_foreign_lock')
                if not failed:
                    for ind in p.individuals:
                        model[ind.id] = model_of(ind)
                    ctx.probe('sync_all')
            else:
                ctx.probe('view_mid_history')
                compare_view(ctx, path, model, definition, site)
            if sim.foreign_lock is not None:
                from .. import seams
                seams.release_foreign_lock(sim)     # the foreign holder never outlives the operation it disturbed
            if ctx.violations:
                break
        if not ctx.violations:
            compare_view(ctx, path, model, definition, site)
    except (kernel.Deadlock, kernel.StepCap):
        raise
    except Exception as e:
        if type(e).__name__ == 'HarnessError':
            raise
        ctx.violation('unexpected_exception', site, 'operation %s raised %r' % (kinds[-1] if kinds else '?', e))
    finally:
        from .. import seams
        seams.release_foreign_lock(sim)
        p.data_store = None
        store = None
        W.remove_db(path)
    ctx.sample = {'family': 'store', 'ops': kinds, 'individuals': len(pool), 'n': w.n, 'm': w.m}
    ctx.sig('store', tuple(kinds), len(pool), tuple(sorted(ctx.probes)))
    return core.result(ctx, sim)


RUN_ALGOS = ('nsga2', 'epsmoea', 'omopso', 'smpso', 'psoga', 'sweep', 'scipy', 'nlopt', 'cmaes', 'cem', 'montecarlo')


def _run(D):
    sim = W.begin_run(D)
    ctx = core.Ctx(PID, D, sim)
    ctx.probe('run_family')
    kind = D.pick('cfg', 'algo', RUN_ALGOS)
    box = D.pick('cfg', 'box', ('unit', 'negative', 'offset', 'mixedsign', 'tiny', 'huge'))
    rev = (None, 'worst', 'gradient')[D.weighted('cfg', 'revaluator', (3, 1, 1))] if kind in ('nsga2', 'epsmoea') else None
    w = W.World(D, sim, fail='none', box=box, with_tol=True, name='c10run')
    p = w.problem
    path = W.fresh_db('c10r')
    definition = definition_of(p)
    store = W.attach_store(w, path)
    # every individual that is handed to the store, by object: the store keeps one row per id, so two different
    # individuals synchronised under one id means that one of them is not returned by the view
    synced = {}
    real_sync = store.sync_individual

    def spy_sync(individual):
        synced.setdefault(individual.id, {})[id(individual)] = individual
        return real_sync(individual)
    store.sync_individual = spy_sync
    N = 2 + D.size('cfg', 'N', 7)
    G = 1 + D.size('cfg', 'G', 4)
    site = 'run of ' + kind
    try:
        with W.quiet():
            if kind in W.ALGOS:
                alg = W.make_algorithm(kind, w, N, G, evaluator=rev)
                if rev:
                    ctx.probe('evaluator_' + rev)
            elif kind == 'sweep':
                from artap.algorithm_sweep import SweepAlgorithm
                from artap import operators as ops
                gen = ops.RandomGenerator(p.parameters)
                gen.init(N)
                alg = SweepAlgorithm(p, generator=gen)
            elif kind in ('cmaes', 'cem', 'montecarlo'):
                # numpy-random driven samplers (np.random is seeded per run by begin_run)
                if kind == 'cmaes':
                    from artap.algorithm_cmaes import CMA_ES as cls
                elif kind == 'cem':
                    from artap.algorithm_cem import CEM as cls
                else:
                    from artap.algorithm_monte_carlo import Monte_Carlo as cls
                alg = cls(p)
                alg.options['max_population_size'] = max(N, 4)
                alg.options['max_population_number'] = 1 + (G % 2)
                alg.options['verbose_level'] = 0
            elif kind == 'scipy':
                from artap.algorithm_scipy import ScipyOpt
                alg = ScipyOpt(p)
                alg.options['algorithm'] = 'Nelder-Mead'
                alg.options['n_iterations'] = 2 + G
            else:
                import artap.algorithm_nlopt as an
                alg = an.NLopt(p)
                alg.options['algorithm'] = an.LN_BOBYQA
                alg.options['n_iterations'] = 3 + 2 * G
                alg.options['verbose_level'] = 0
            alg.run()
        model = {}
        ids = set()
        for ind in p.individuals:
            if ind.id in ids:
                continue
            ids.add(ind.id)
            model[ind.id] = model_of(ind)
        compare_view(ctx, path, model, definition, site, complete=False)
        clash = [(i, list(objs.values())) for i, objs in synced.items() if len(objs) > 1]
        if clash and not ctx.violations:
            i, objs = clash[0]
            ctx.violation('row_missing', site, '%d different individuals were synchronised under id %r (vectors %r): the store keeps '
                          'one row per id, so all but one of them are lost' % (len(objs), i, [list(o.vector) for o in objs][:3]))
        if not model:
            ctx.violation('final_store_incomplete', site, 'run recorded no individuals')
    except (kernel.Deadlock, kernel.StepCap):
        raise
    except Exception as e:
        if type(e).__name__ == 'HarnessError':
            raise
        if type(e).__module__.startswith('nlopt'):
            # raised by the optimiser library itself (nlopt.RoundoffLimited): the run did not finish, nothing to compare
            ctx.probe('optimizer_stopped_with_exception')
        elif isinstance(e, (TypeError, ArithmeticError, ValueError)) and runfam.overshoot(w):
            # observation O5 (DESIGN.md 8), the rule of runfam.judge_abort: a design sampled onto a coarse precision grid may
            # exceed a bound by less than half the precision (legal), SBX / PM of such a parent can raise and the run dies; no
            # listed property promises a result there and C10 speaks of runs that finish
            ctx.outcome = 'sut_abort'
            ctx.probe('o5_precision_overshoot_crash')
        else:
            ctx.violation('unexpected_exception', site, 'run with a store raised %r' % (e,))
    finally:
        p.data_store = None
        store = None
        W.remove_db(path)
    ctx.sample = {'family': 'run', 'algorithm': kind, 'evaluator': rev or 'simple', 'N': N, 'G': G, 'rows': len(p.individuals), 'n': w.n, 'm': w.m,
                  'box': w.boxkind}
    ctx.sig('run', kind, rev, N, G, w.n, w.m, len(p.individuals), box)
    # in the run family a missing or stale row is the "final store incomplete" clause
    for v in ctx.violations:
        if v['clause'] in ('row_missing', 'field_ne_model'):
            v['text'] = '[after run] ' + v['text']
    return core.result(ctx, sim)
