"""C14 – robust (worst-case) and gradient evaluators compute what they promise, stably.

Families: `batch` (1–5 consecutive batches through one evaluator object, serial or
2–3 simulated workers) and `run` (NSGA-II / eps-MOEA constructed with
EvaluatorType.WORST_CASE or GRADIENT).  The oracle runs after *every* batch over
all designs that were ever handed to the evaluator: this is where state that
accumulates inside the evaluator across batches shows.
"""
from .. import core, kernel, monitors, runfam, world as W

PID = 'C14'
LEVEL = 'exploration'
RULE = ('one case = one history of batches through one WorstCaseEvaluator or GradientEvaluator: 1-5 generated batches of 1-6 fresh '
        'designs (optionally re-submitting an earlier design) on a batch algorithm, or the batch sequence of one NSGA-II / '
        'eps-MOEA run (N 2-8, G 1-4) constructed with that evaluator type, or an OMOPSO / SMPSO run whose evaluator attribute was replaced; n 1-4, 1-2 user objectives, per-parameter tolerances, '
        'serial or 2-3 simulated workers.  After every batch: neighbour set, neighbour costs, sensitivity sum, cost-vector '
        'length, gradient quotient and the objective-call budget of the batch, for the new designs AND for all designs of '
        'earlier batches.  Non-trivial = at least two batches went through the evaluator; distinct = hash of '
        '(family, evaluator, configuration, batch sizes, first costs).')
ASSUMPTIONS = [
    'objective failures only as transient failures of *designs* under the worst-case evaluator in the batch family (the neighbours must then sit around the re-rolled vector); otherwise off (observation O2: a re-rolled parent keeps neighbours built from the old vector; C14 does not quantify over faults)',
    'NSGA-II parent copies are recorded but never evaluated and carry no neighbours: they are not "evaluated designs" and are skipped',
    'sensitivity compared to 1e-12 relative (same summation order), gradient to 1e-9 relative',
]
COMPONENTS = {
    'real': ['artap.operators.WorstCaseEvaluator / GradientEvaluator / Evaluator', 'artap.job.Job', 'artap.algorithm.Algorithm.evaluate',
             'NSGAII / EpsMOEA run loops (run family)'],
    'stub': ['user objective (harness world)', 'joblib (SimParallel)', 'time.time', 'uuid1'],
}
PROBES_EXPECTED = ['worst_batches', 'gradient_batches', 'second_or_later_batch', 'earlier_designs_rechecked', 'run_family',
                   'resubmitted_design', 'revisited_vector', 'parallel_batches', 'failed_parent_rerolled', 'integer_coordinates']


class Oracle:
    def __init__(self, ctx, w, kind, m_user):
        self.ctx = ctx
        self.w = w
        self.kind = kind
        self.m = m_user
        self.ever = []          # (design, batch#)
        self.nb = 0
        self.seen_calls = 0

    def after_batch(self, batch, resubmitted=()):
        ctx, w = self.ctx, self.w
        self.nb += 1
        all_new = w.calls[self.seen_calls:]
        new_calls = [c for c in all_new if c.outcome == 'ok']      # retried attempts of a failed design are C06's business
        if len(all_new) != len(new_calls):
            ctx.probe('failed_parent_rerolled', len(all_new) - len(new_calls))
        self.seen_calls = len(w.calls)
        ctx.probe('worst_batches' if self.kind == 'worst' else 'gradient_batches')
        if self.nb >= 2:
            ctx.probe('second_or_later_batch')
            ctx.check()
        fresh = [d for d in batch if not any(d is e for e, _ in self.ever)]
        for d in fresh:
            self.ever.append((d, self.nb))
        n = w.n
        per = (1 + 2 * n) if self.kind == 'worst' else (1 + n)
        extra = (2 * n if self.kind == 'worst' else n) * len(resubmitted)
        site = ('WorstCaseEvaluator' if self.kind == 'worst' else 'GradientEvaluator') + '.evaluate'
        exp_calls = per * len(fresh) + extra
        if len(new_calls) != exp_calls:
            ctx.violation('wc_calls' if self.kind == 'worst' else 'grad_calls', site,
                          'batch %d: %d objective calls for %d new designs (n=%d), expected %d'
                          % (self.nb, len(new_calls), len(fresh), n, exp_calls))
        old_objs = {id(e) for e, b in self.ever if b < self.nb and not any(e is r for r in resubmitted)}
        for e, b in self.ever:
            if b < self.nb and not any(e is r for r in resubmitted):
                for ch in e.children:
                    old_objs.add(id(ch))
        hit = [c for c in new_calls if c.obj in old_objs]
        if hit:
            ctx.violation('wc_reprocessed', site, 'batch %d sent %d designs of earlier batches to the objective again' % (self.nb, len(hit)))
        for d, b in self.ever:
            if b < self.nb:
                ctx.probe('earlier_designs_rechecked')
            self.check_design(d, b, site)
            if ctx.violations:
                return

    def check_design(self, d, b, site):
        ctx, w = self.ctx, self.w
        n = w.n
        what = 'design id %d of batch %d (now after batch %d)' % (d.id, b, self.nb)
        f0 = w.f(d.vector)
        if self.kind == 'worst':
            exp_children = []
            for i in range(n):
                for sign in (-1, 1):
                    v = list(d.vector)
                    v[i] += sign * w.params[i]['tol']
                    exp_children.append(tuple(v))
            got_children = [tuple(c.vector) for c in d.children]
            if sorted(got_children) != sorted(exp_children):
                ctx.violation('wc_children', site, '%s: neighbours %r, expected x +- tol along each axis %r'
                              % (what, got_children, exp_children))
                return
            sens = 0.0
            parts = []
            for c in d.children:
                fc = w.f(c.vector)
                if list(c.costs[:len(fc)]) != fc or c.state != c.State.EVALUATED:
                    ctx.violation('wc_child_costs', site, '%s: neighbour %r has costs %r (state %s), objective gives %r'
                                  % (what, list(c.vector), list(c.costs), c.state, fc))
                    return
                parts.append(abs(f0[0] - fc[0]))
            sens = sum(parts)
            got = d.features.get('sensitivity')
            if got is None or abs(got - sens) > 1e-12 * max(1.0, abs(sens)):
                ctx.violation('wc_sensitivity', site, '%s: sensitivity feature %r, sum of |f(x) - f(neighbour)| is %r' % (what, got, sens))
                return
            if len(d.costs) != self.m + 1 or len(d.costs_signed) != self.m + 2:
                ctx.violation('wc_cost_len', site, '%s: cost vector %r has %d entries (signed %d), expected %d user objectives + 1 '
                              '(+ marker)' % (what, list(d.costs), len(d.costs), len(d.costs_signed), self.m))
                return
            if list(d.costs[:self.m]) != f0 or abs(d.costs[-1] - sens) > 1e-12 * max(1.0, abs(sens)) \
                    or abs(d.costs_signed[-2] - sens) > 1e-12 * max(1.0, abs(sens)):
                ctx.violation('wc_sensitivity', site, '%s: costs %r / signed %r, expected user costs %r followed by %r'
                              % (what, list(d.costs), list(d.costs_signed), f0, sens))
                return
        else:
            g = d.features.get('gradient')
            if g is None or len(g) != n:
                ctx.violation('grad_value', site, '%s: gradient feature %r' % (what, g))
                return
            exp_children = []
            for i in range(n):
                v = list(d.vector)
                v[i] += 1e-4
                exp_children.append(tuple(v))
            if [tuple(c.vector) for c in d.children] != exp_children:
                ctx.violation('grad_value', site, '%s: finite-difference points %r, expected %r'
                              % (what, [tuple(c.vector) for c in d.children], exp_children))
                return
            for i in range(n):
                fd = (w.f(list(exp_children[i]))[0] - f0[0]) / 1e-4
                if abs(float(g[i]) - fd) > 1e-9 * max(1.0, abs(fd)):
                    ctx.violation('grad_value', site, '%s: gradient[%d] = %r, forward difference with step 1e-4 gives %r'
                                  % (what, i, float(g[i]), fd))
                    return
            if list(d.costs[:self.m]) != f0:
                ctx.violation('grad_value', site, '%s: costs %r, objective gives %r' % (what, list(d.costs), f0))


def run_one(D, opts=None):
    if D.weighted('cfg', 'family', (3, 2)) == 0:
        return _batch(D)
    return _run(D)


def _batch(D):
    from artap.individual import Individual
    sim = W.begin_run(D)
    ctx = core.Ctx(PID, D, sim)
    kind = ('worst', 'gradient')[D.weighted('cfg', 'evaluator', (3, 2))]
    workers = 1 + D.weighted('cfg', 'workers', (2, 1, 1))
    w = W.World(D, sim, fail='none', with_tol=True, precision=0, n=1 + D.dec('cfg', 'n', 4), m=1 + D.dec('cfg', 'm', 2),
                name='c14')
    m_user = w.m
    alg = W.dummy_algorithm(w, workers=workers, evaluator=kind)
    orc = Oracle(ctx, w, kind, m_user)
    nb = 1 + D.size('cfg', 'nbatches', 5)
    sizes = []
    allowed_resubmit = D.dec('cfg', 'resubmit', 4) == 1
    faulty = D.dec('cfg', 'wcfaults', 3) == 1
    try:
        for b in range(nb):
            nd = 1 + D.dec('work', ('nd', b), 6)
            batch = [Individual(W.gen_vector(w, D, 'work', ('v', b, i))) for i in range(nd)]
            for i, ind in enumerate(batch):
                # designs given with integer coordinates (legal: a user may write [1, -2, 3]) where the box contains integers
                if D.dec('work', ('intvec', b, i), 6) == 1:
                    iv = [int(round(x)) for x in ind.vector]
                    if all(p['bounds'][0] <= v <= p['bounds'][1] for v, p in zip(iv, w.params)):
                        ind.vector = iv
                        ctx.probe('integer_coordinates')
            if orc.ever and D.dec('work', ('twinvec', b), 4) == 1:
                # a new design with the vector of an earlier one (a re-visited point; a memoising objective hands out the
                # same result list for it)
                old = orc.ever[D.dec('work', ('twi', b), len(orc.ever))][0]
                batch.append(Individual(list(old.vector)))
                ctx.probe('revisited_vector')
            if kind == 'worst' and faulty:
                # transient failures of *designs* (never of neighbour designs: a failed neighbour is re-rolled by Job and is
                # then no neighbour any more - outside C14, like observation O2 for the gradient evaluator)
                for i, ind in enumerate(batch):
                    k = D.weighted('fault', ('wcfail', b, i), (5, 2, 1))
                    if k:
                        w.pattern[ind.id] = [('timeout', 'runtime')[D.dec('fault', ('wck', b, i, j), 2)] for j in range(k)] + ['ok']
            res = []
            if allowed_resubmit and orc.ever and D.dec('work', ('rs', b), 2):
                old = orc.ever[D.dec('work', ('rsi', b), len(orc.ever))][0]
                batch.append(old)
                res = [old]
                ctx.probe('resubmitted_design')
            sizes.append(nd)
            sim.ev('batch', b, nd)
            with W.quiet():
                alg.evaluate(batch)
            orc.after_batch(batch, res)
            if ctx.violations:
                break
    except (kernel.Deadlock, kernel.StepCap):
        raise
    except Exception as e:
        if type(e).__name__ == 'HarnessError':
            raise
        ctx.violation('unexpected_exception', kind + ' evaluator', 'evaluate raised %r on a legal batch' % (e,))
    ctx.sample = {'family': 'batch', 'evaluator': kind, 'workers': workers, 'batches': sizes, 'n': w.n, 'm_user': m_user,
                  'tolerances': [p['tol'] for p in w.params], 'box': w.boxkind}
    ctx.sig('batch', kind, workers, tuple(sizes), w.n, m_user, tuple(round(c.vector[0], 9) for c in w.calls[:2]))
    return core.result(ctx, sim)


def _run(D):
    kind = ('worst', 'gradient')[D.weighted('cfg', 'evaluator', (3, 2))]
    info = runfam.setup(D, PID, algos=('nsga2', 'epsmoea', 'omopso', 'smpso'), fails=('none',), fail_weights=(1,), p_exts=(0.0,), p_ext_weights=(1,),
                        evaluator=kind, with_tol=True, precision=0, max_N=7, max_G=4, n=1 + D.dec('cfg', 'n', 4),
                        m=1 + D.dec('cfg', 'm', 2))
    ctx, w, alg = info.ctx, info.w, info.alg
    ctx.probe('run_family')
    ctx.sample['evaluator'] = kind
    orc = Oracle(ctx, w, kind, w.m)
    real = alg.evaluator.evaluate

    def spy(individuals):
        batch = list(individuals)
        r = real(individuals)
        if not ctx.violations:
            orc.after_batch(batch)
        return r

    alg.evaluator.evaluate = spy
    runfam.execute(info)
    if info.raised is not None:
        ctx.violation('unexpected_exception', 'run of %s with the %s evaluator' % (info.kind, kind), 'run raised %r' % (info.raised,))
    return runfam.finish(info, kind, orc.nb)
