"""C18 – swarm: personal best never regresses, velocity clamped, leader set bounded.

Run family over OMOPSO, SMPSO, PSOGA with per-particle before/after oracles on the
public update methods in every generation, plus a `direct` family that calls the
same methods on harness-built swarms whose velocities and positions lie far
outside the box.
"""
import copy

from .. import core, kernel, monitors, refmodels as R, runfam, seams, world as W

PID = 'C18'
LEVEL = 'exploration'
RULE = ('one case = one complete OMOPSO / SMPSO / PSOGA run (N 2-10, G 1-5, n 1-5, m 1-4, all box kinds, failure plans, '
        'extreme-draw rate) with monitors on update_particle_best (one particle at a time), update_velocity, update_position '
        'and update_global_best in every generation; or one direct history that first runs one generation and then feeds '
        'the same public methods particles with positions / velocities up to 1e3 ranges outside the box.  Non-trivial = at '
        'least one particle went through a before/after oracle; distinct = hash of (configuration, calls, last vectors).')
ASSUMPTIONS = [
    'update_particle_best runs unmodified on the whole list; the oracle replays the list against a per-record model with '
    'sequential semantics, because PSOGA lets two particles share one features dict (observation O4)',
    'position rule judged per coordinate from the pre-state t = x + v with exact float equality (same operations)',
    'leader mutual non-domination judged with textbook constrained Pareto dominance on signed costs',
]
COMPONENTS = {
    'real': ['artap.algorithm_swarm.SwarmAlgorithm / OMOPSO / SMPSO / PSOGA', 'artap.archive.Archive', 'artap.operators dominance, '
             'crowding_distance, mutators, CopySelector, TournamentSelector', 'artap.job.Job'],
    'stub': ['user objective with failure plan', 'PRNG seam (seeded + extreme legal draws)', 'joblib', 'time.time', 'uuid1'],
}
PROBES_EXPECTED = ['pbest_kept', 'pbest_replaced', 'hit_upper', 'hit_lower', 'inside', 'velocity_clamped_hi', 'velocity_clamped_lo',
                   'leaders_at_capacity', 'second_run_with_smaller_swarm', 'omopso', 'smpso', 'psoga', 'direct_family', 'box_narrowed_between_uses', 'infinite_objective_plateau']

ALGOS = ('omopso', 'smpso', 'psoga')
FACTOR = {'OMOPSO': -1, 'PSOGA': -1, 'SMPSO': 0.001}


def hooks(ctx, w, N):
    def pbest(orig, self, population):
        """the real method runs once on the whole list (the monitor must not change what the SUT does); the oracle replays the
        list against a model with sequential semantics - one record per features dict, because PSOGA lets a GA child share
        the record of the particle it was bred from (O4): a record is never replaced by a position it dominates, whoever
        of the sharing particles asks"""
        site = 'SwarmAlgorithm.update_particle_best'
        model = {}
        for particle in population:
            f = particle.features
            if id(f) not in model:
                model[id(f)] = [list(f['best_cost']) if f['best_cost'] is not None else None,
                                list(f['best_vector']) if f['best_vector'] is not None else None, f]
            else:
                ctx.probe('shared_features')
        snapshot = [(list(p.costs_signed), list(p.vector), id(p.features)) for p in population]
        r = orig(self, population)
        for cs, vec, fid in snapshot:
            rec = model[fid]
            if rec[0] is None:
                rec[0], rec[1] = cs, vec
                continue
            ctx.check()
            if R.dominates(rec[0], cs) == 1:
                ctx.probe('pbest_kept')
            else:
                ctx.probe('pbest_replaced')
                rec[0], rec[1] = cs, vec
        for fid, (cost, vec, f) in model.items():
            if cost is None:
                continue
            got_c = list(f['best_cost']) if f['best_cost'] is not None else None
            got_v = list(f['best_vector']) if f['best_vector'] is not None else None
            if got_c != cost or got_v != vec:
                mine = [cs for cs, _, i in snapshot if i == fid]
                regress = got_c is not None and any(R.dominates(c, got_c) == 1 for c in mine + [cost])
                ctx.violation('pbest_regressed' if regress else 'pbest_not_replaced', site,
                              'personal best is %r (vector %r), expected %r (vector %r); new positions of the particle(s) owning '
                              'this record, in order: %r' % (got_c, got_v, cost, vec, mine))
                break
        return r

    def velocity(orig, self, individuals):
        r = orig(self, individuals)
        site = 'SwarmAlgorithm.update_velocity'
        for ind in individuals:
            v = ind.features['velocity']
            for i, p in enumerate(self.parameters):
                ctx.check()
                half = (p['bounds'][1] - p['bounds'][0]) / 2.0
                if v[i] == half:
                    ctx.probe('velocity_clamped_hi')
                elif v[i] == -half:
                    ctx.probe('velocity_clamped_lo')
                if not (-half <= v[i] <= half):
                    ctx.violation('velocity_clamp', site, 'velocity component %d = %r outside +-%r' % (i, v[i], half))
                    return r
        return r

    def position(orig, self, individuals):
        site = type(self).__name__ + '.update_position'
        k = FACTOR[type(self).__name__]
        pre = [(list(ind.vector), list(ind.features['velocity'])) for ind in individuals]
        r = orig(self, individuals)
        for ind, (x, v) in zip(individuals, pre):
            for i, p in enumerate(self.parameters):
                ctx.check()
                lb, ub = p['bounds']
                t = x[i] + v[i]
                if t > ub:
                    exp = (ub, v[i] * k)
                    ctx.probe('hit_upper')
                elif t < lb:
                    exp = (lb, v[i] * k)
                    ctx.probe('hit_lower')
                else:
                    exp = (t, v[i])
                    ctx.probe('inside')
                got = (ind.vector[i], ind.features['velocity'][i])
                if got != exp:
                    ctx.violation('position_rule', site, 'coordinate %d: x=%r v=%r box [%r, %r] -> (%r, %r), expected (%r, %r)'
                                  % (i, x[i], v[i], lb, ub, got[0], got[1], exp[0], exp[1]))
                    return r
        return r

    def gbest(orig, self, swarm):
        r = orig(self, swarm)
        site = type(self).__name__ + '.update_global_best'
        L = list(self.leaders)
        ctx.check()
        cap = self.options['max_population_size']
        if len(L) == cap:
            ctx.probe('leaders_at_capacity')
        if len(L) > cap:
            ctx.violation('leaders_size', site, '%d leaders, population size %d' % (len(L), cap))
        for a in range(len(L)):
            for b in range(len(L)):
                if a != b and R.dominates(L[a].costs_signed, L[b].costs_signed) == 1:
                    ctx.violation('leaders_dominated', site, 'leader %r dominates leader %r' % (L[a].costs_signed, L[b].costs_signed))
                    return r
        return r

    return dict(pbest=pbest, velocity=velocity, position=position, gbest=gbest)


def run_one(D, opts=None):
    if D.weighted('cfg', 'family', (4, 1)) == 1:
        return _direct(D)
    info = runfam.setup(D, PID, algos=ALGOS, precision=None)
    ctx, w = info.ctx, info.w
    ctx.probe(info.kind)
    if D.dec('cfg', 'second_run_smaller', 4) == 1:
        # a first study with a larger swarm, then the population size is lowered and the SAME algorithm object runs again:
        # the leader archive it carries over must be cut to the population size as it is now
        fp, w.fail_p = w.fail_p, 0.0
        info.alg.options['max_population_size'] = info.N + 2 + D.dec('cfg', 'first_run_extra', 8)
        try:
            with W.quiet():
                info.alg.run()
        except (kernel.Deadlock, kernel.StepCap):
            raise
        except Exception:
            pass            # judged below by the ordinary rules on the second run
        w.fail_p = fp
        info.alg.options['max_population_size'] = info.N
        ctx.probe('second_run_with_smaller_swarm')
    monitors.set_hooks(**hooks(ctx, w, info.N))
    runfam.execute(info)
    runfam.judge_abort(info, 'run of ' + info.kind, clause=None)
    if not info.raised:
        L = list(info.alg.leaders)
        if len(L) > info.N:
            ctx.violation('leaders_size', 'run of ' + info.kind, '%d leaders after run(), population size %d' % (len(L), info.N))
    return runfam.finish(info)


def _direct(D):
    """one generation of a real run to obtain leaders, then the public methods on wild particles"""
    info = runfam.setup(D, PID, algos=ALGOS, precision=None, fails=('none',), fail_weights=(1,), max_G=1,
                        p_exts=(0.0, 0.2), p_ext_weights=(1, 1), workers_weights=(1, 0, 0))
    ctx, w, alg = info.ctx, info.w, info.alg
    ctx.probe('direct_family')
    ctx.sample['family'] = 'direct'
    h = hooks(ctx, w, info.N)
    monitors.set_hooks(**h)
    try:
        with W.quiet():
            alg.run()
            base = [i for i in w.problem.individuals][-info.N:]
            monitors.set_hooks(**h)
            for rnd in range(1 + D.dec('cfg', 'rounds', 3)):
                parts = alg.selector.select(base) if info.kind != 'psoga' else alg.offspring_selector.select(base)
                for pi, ind in enumerate(parts):
                    for i, p in enumerate(alg.parameters):
                        lb, ub = p['bounds']
                        rng = ub - lb
                        c = D.dec('work', ('wild', rnd, pi, i), 6)
                        if c == 1:
                            ind.vector[i] = ub + rng * (1 + D.dec('work', ('wf', rnd, pi, i), 1000))
                        elif c == 2:
                            ind.vector[i] = lb - rng * (1 + D.dec('work', ('wf', rnd, pi, i), 1000))
                        elif c == 3:
                            ind.features['best_vector'] = list(ind.features['best_vector'])
                            ind.features['best_vector'][i] = ub + rng * 50
                        elif c == 4:
                            ind.vector[i] = (lb, ub)[D.dec('work', ('wb', rnd, pi, i), 2)]
                if rnd >= 1 and D.dec('work', ('narrow', rnd), 3) == 1:
                    # the user narrows the box in place between two uses of the same algorithm object (legal: the
                    # parameters are plain dicts); every later update must respect the box as it is now
                    for p in alg.parameters:
                        lb, ub = p['bounds']
                        p['bounds'] = [lb + 0.25 * (ub - lb), ub - 0.25 * (ub - lb)]
                    ctx.probe('box_narrowed_between_uses')
                alg.update_velocity(parts)
                for pi, ind in enumerate(parts):
                    for i, p in enumerate(alg.parameters):
                        rng = p['bounds'][1] - p['bounds'][0]
                        c = D.dec('work', ('wv', rnd, pi, i), 5)
                        if c == 1:
                            ind.features['velocity'][i] = rng * (3 + D.dec('work', ('wvf', rnd, pi, i), 100))
                        elif c == 2:
                            ind.features['velocity'][i] = -rng * (3 + D.dec('work', ('wvf', rnd, pi, i), 100))
                        elif c == 3:
                            ind.features['velocity'][i] = 0.0
                alg.update_position(parts)
                # give the particles costs so that the personal-best / leader methods can be exercised too
                plateau = w.m >= 2 and D.dec('work', ('plateau', rnd), 4) == 1
                for ind in parts:
                    ind.costs = w.f([min(max(x, p['bounds'][0]), p['bounds'][1]) for x, p in zip(ind.vector, alg.parameters)])
                    if plateau:
                        # a penalty plateau: one objective is +inf (minimised) for every particle, also in its personal best
                        ind.costs[-1] = float('inf') * w.signs[-1]
                        if ind.features.get('best_cost') is not None:
                            bc = list(ind.features['best_cost'])
                            bc[w.m - 1] = float('inf')
                            ind.features['best_cost'] = bc
                    ind.features['feasible'] = 0.0
                    ind.calc_signed_costs(w.signs)
                if plateau:
                    ctx.probe('infinite_objective_plateau')
                alg.update_particle_best(parts)
                alg.update_global_best(parts)
                if ctx.violations:
                    break
    except (kernel.Deadlock, kernel.StepCap):
        raise
    except Exception as e:
        if type(e).__name__ == 'HarnessError':
            raise
        ctx.violation('unexpected_exception', 'direct swarm history', 'public update method raised %r' % (e,))
    finally:
        monitors.clear()
    if seams.RNG.extremes:
        ctx.probe('prng_extreme', seams.RNG.extremes)
        info.sim.stats['prng_extreme'] = seams.RNG.extremes
    return runfam.finish(info, 'direct')
