"""C07 – parallel evaluation is equivalent to serial evaluation under every schedule.

Scenario families: `batch` (Algorithm.evaluate with 2–4 simulated workers, every
evaluator type, dummy or SQLite store, 1–2 consecutive batches) and `store`
(2–3 simulated threads writing through one SqliteDataStore).  Oracle: a twin
world evaluated serially by the same real code, the objective's call log keyed by
object identity, and a read-mode view of the database opened the moment the
parallel call returns.
"""
import json

from .. import core, kernel, world as W
from ..decisions import Decisions

PID = 'C07'
LEVEL = 'exploration'
RULE = ('one case = one simulated history: a batch history, a store history with concurrent writers, or a complete NSGA-II / '
        'eps-MOEA / OMOPSO / SMPSO / PSOGA / Sweep run with 2-4 workers compared with the same run executed serially; configuration (designs 2-10, workers 2-4, evaluator simple/gradient/'
        'worst-case, store dummy/SQLite, n, m, constraints, box) + scheduling policy (random/pct/fifo/lifo/rr/starve) '
        '+ stall plan, all drawn from the run seed; the scheduler decides the interleaving at task start, objective '
        'entry/exit, connect, every SQL statement, commit and lock-wait wake-up.  A case is non-trivial when at least '
        'two workers were alive and every clause of the oracle was evaluated on at least one design; distinct = '
        'distinct hash of (configuration class, per-batch schedule signature = sequence of (task, yield kind), '
        'fault multiset, final ledger).')
ASSUMPTIONS = [
    'pre-emption only at the yield points listed in DESIGN.md 4.2; code between two yield points is atomic',
    'joblib is replaced by a stub that reproduces FIFO dispatch, shared-memory vs copy semantics and exception propagation',
    'SQLite busy handler modelled in virtual time (5 s) on top of the real libsqlite3 opened with timeout=0',
    'objective failures are off (a re-roll consumes the shared PRNG in schedule order) except in the abort family, where one design '
    'of a parallel batch propagates an exception and only schedule-independent clauses are judged',
    'float bounds and float costs (observation O1)',
]
COMPONENTS = {
    'real': ['artap.operators.Evaluator/GradientEvaluator/WorstCaseEvaluator', 'artap.job.Job', 'artap.surrogate.SurrogateModelEval',
             'artap.datastore.SqliteDataStore', 'artap.individual.Individual', 'python sqlite3 + libsqlite3 on a tmpfs file',
             'artap.problem.ProblemViewDataStore'],
    'stub': ['joblib.Parallel/delayed (SimParallel)', 'user objective/constraints (harness world)', 'time.time (virtual clock)',
             'uuid1'],
}

ROW_FIELDS = ('vector', 'costs', 'costs_signed', 'state', 'population_id', 'custom')


def _row_fields(ind):
    d = ind.to_dict() if hasattr(ind, 'to_dict') and not isinstance(ind, dict) else ind
    return {k: json.loads(json.dumps(d[k])) for k in ROW_FIELDS}


def _view_rows(path):
    v = W.open_view(path)
    rows = {}
    dup = []
    for r in v.individuals:
        if r.id in rows:
            dup.append(r.id)
        rows[r.id] = r
    return v, rows, dup


def _raw_counts(path):
    import sqlite3
    c = sqlite3.connect(path)
    try:
        return dict(c.execute('select id, count(*) from individuals group by id').fetchall()), \
            c.execute('select count(*) from individuals').fetchone()[0]
    finally:
        c.close()


def _row_of(r):
    st = r.state if isinstance(r.state, str) else r.to_string(r.state)   # the stored word; views may hand back the enum
    return {'vector': list(r.vector), 'costs': list(r.costs), 'costs_signed': list(r.costs_signed),
            'state': st, 'population_id': r.population_id, 'custom': r.custom}


def _family(ind):
    out = [ind]
    for ch in ind.children:
        out.append(ch)
    return out


def run_one(D, opts=None):
    fam = D.weighted('cfg', 'family', (4, 1, 2, 1))
    if fam == 1:
        return _run_store(D)
    if fam == 2:
        return _run_whole(D)
    if fam == 3:
        return _run_abort(D)
    return _run_batch(D)


def _run_abort(D):
    """a parallel batch that one design aborts (a non-transient exception, or five transient failures in a row): the caller
    gets the exception, and every design that other workers brought to EVALUATED meanwhile still has its own costs, one
    objective call and - with a store - its row; a later batch on the same objects is persisted as usual"""
    from artap.individual import Individual
    sim = W.begin_run(D)
    ctx = core.Ctx(PID, D, sim)
    workers = 2 + D.dec('cfg', 'workers', 3)
    use_db = D.weighted('cfg', 'store', (1, 3)) == 1
    w = W.World(D, sim, fail='none', precision=0, name='c07a')
    db = None
    if use_db:
        db = W.fresh_db('c07a')
        W.attach_store(w, db)
    alg = W.dummy_algorithm(w, workers=workers)
    nd = 3 + D.dec('cfg', ('ndes', 0), 7)
    batch = [Individual(W.gen_vector(w, D, 'work', ('v', 0, i))) for i in range(nd)]
    bad = D.dec('work', 'abort_at', nd)
    kind = D.dec('work', 'abort_kind', 3)
    w.pattern[batch[bad].id] = [('value',), ('zerodiv',), ('timeout', 'runtime', 'timeout', 'runtime', 'timeout')][kind]
    site = 'Evaluator.evaluate_parallel'
    ctx.sample = {'family': 'abort', 'workers': workers, 'store': 'sqlite' if use_db else 'dummy', 'designs': nd,
                  'aborting_design': bad, 'pattern': list(w.pattern[batch[bad].id]), 'policy': sim.policy, 'stall_p': sim.stall_p}
    try:
        raised = None
        with W.quiet():
            try:
                alg.evaluate(batch)
            except kernel.Deadlock:
                ctx.violation('deadlock', site, 'all workers blocked with no deadline')
                return core.result(ctx, sim)
            except kernel.StepCap:
                raise
            except Exception as e:
                raised = e
        sim.stat('obj_abort')
        if raised is None:
            ctx.violation('exception_in_worker', site, 'design %d raises %s but evaluate() returned normally'
                          % (bad, w.pattern[batch[bad].id][-1]))
        second = [Individual(W.gen_vector(w, D, 'work', ('v', 1, i))) for i in range(2 + D.dec('cfg', ('ndes', 1), 4))]
        with W.quiet():
            try:
                alg.evaluate(second)
            except kernel.StepCap:
                raise
            except Exception as e:
                ctx.violation('exception_in_worker', site, 'a fault-free batch after the aborted one raised %r' % (e,))
        rows = {}
        if use_db:
            _, rows, _ = _view_rows(db)
        calls = {}
        for c in w.calls:
            if c.outcome == 'ok':
                calls[c.obj] = calls.get(c.obj, 0) + 1
        nev = 0
        for label, group in (('aborted batch', batch), ('following batch', second)):
            for k, x in enumerate(group):
                if x.state != x.State.EVALUATED:
                    if label == 'following batch':
                        ctx.violation('differs_from_serial', site, 'design %d of the batch after the abort is %s' % (k, x.state))
                    continue
                nev += 1
                ctx.check()
                if list(x.costs) != w.f(x.vector) or calls.get(id(x), 0) != 1:
                    ctx.violation('differs_from_serial', site, '%s, design %d: costs %r for vector %r (objective gives %r), %d successful calls'
                                  % (label, k, list(x.costs), list(x.vector), w.f(x.vector), calls.get(id(x), 0)))
                    break
                if use_db:
                    if x.id not in rows:
                        ctx.violation('row_missing', 'SqliteDataStore.sync_individual', '%s: evaluated design %d (id %d) has no row'
                                      % (label, k, x.id))
                        break
                    if _row_of(rows[x.id]) != _row_fields(x):
                        ctx.violation('row_ne_final', 'SqliteDataStore.sync_individual', '%s: row of design %d (id %d) %r differs from %r'
                                      % (label, k, x.id, _row_of(rows[x.id]), _row_fields(x)))
                        break
        ctx.probe('evaluated_despite_abort', sum(1 for x in batch if x.state == x.State.EVALUATED))
        ctx.sig('abort', workers, use_db, nd, bad, kind, nev, tuple(sim.sigs[:2]))
    finally:
        w.problem.data_store = None
        if db:
            W.remove_db(db)
    return core.result(ctx, sim)


def _ledger(p):
    return [(i.id, [float(x) for x in i.vector], [float(c) for c in i.costs], [float(c) for c in i.costs_signed],
             i.state.name if hasattr(i.state, 'name') else i.state, i.population_id) for i in p.individuals]


def _run_whole(D):
    """a complete run with 2-4 simulated workers against the same run executed serially (same SUT seed: without
    objective failures all PRNG draws happen in the main task, so the two runs must be identical)"""
    from artap.individual import Individual
    from .. import seams
    sim = W.begin_run(D)
    ctx = core.Ctx(PID, D, sim)
    kind = D.pick('cfg', 'walgo', ('nsga2', 'epsmoea', 'omopso', 'smpso', 'psoga', 'sweep', 'psoga', 'epsmoea'))
    workers = 2 + D.dec('cfg', 'workers', 3)
    use_db = D.weighted('cfg', 'store', (1, 3)) == 1
    N = 2 + D.dec('cfg', 'wN', 6)
    # GA-on-swarm hybrids breed two children per generation from tournament winners: small swarms and constraints are where
    # children meet (F5), so that corner is sampled more densely
    wncons = (1 + D.dec('cfg', 'wncons', 2)) if (kind == 'psoga' and D.dec('cfg', 'wcons', 4) != 0) else None
    if kind == 'psoga' and D.dec('cfg', 'wsmall', 2):
        N = 2 + D.dec('cfg', 'wN', 3)
    G = 1 + D.dec('cfg', 'wG', 3)
    sut_seed = D.dec('sut', 'seed', 1 << 30)
    wev = (None, 'gradient', 'worst')[D.weighted('cfg', 'wevaluator', (3, 1, 1))] if kind in ('nsga2', 'epsmoea') else None
    ctx.sample = {'family': 'run', 'evaluator': wev or 'simple', 'algorithm': kind, 'N': N, 'G': G, 'workers': workers, 'store': 'sqlite' if use_db else 'dummy',
                  'policy': sim.policy, 'stall_p': sim.stall_p, 'timed': sim.timed}
    site = 'Evaluator.evaluate_parallel'
    dbs = []

    def one(nworkers, tag, hook):
        Individual.counter = 0
        seams.RNG.begin(D, sut_seed, 0.0)
        w = W.World(D, sim, fail='none', precision=0, with_tol=True, ncons=wncons, name='c07w')
        db = None
        late_store = use_db and D.dec('cfg', 'late_store', 3) == 1     # "algorithm first, store second" is a legal order
        if use_db:
            db = W.fresh_db('c07w' + tag)
            dbs.append((w, db))
            if not late_store:
                W.attach_store(w, db)
        if kind == 'sweep':
            from artap.algorithm_sweep import SweepAlgorithm
            from artap import operators as ops
            gen = ops.RandomGenerator(w.problem.parameters)
            gen.init(N)
            with W.quiet():
                alg = SweepAlgorithm(w.problem, generator=gen)
            alg.options['max_processes'] = nworkers
        else:
            alg = W.make_algorithm(kind, w, N, G, workers=nworkers, evaluator=wev)
        if late_store:
            W.attach_store(w, db)
            ctx.probe('store_attached_after_algorithm')
        if hook:
            real = alg.evaluator.evaluate

            def spy(individuals):
                batch = list(individuals)
                r = real(individuals)
                if db and not ctx.violations and wev is None:
                    _rows_at_batch_end(ctx, db, batch)
                return r
            alg.evaluator.evaluate = spy
        with W.quiet():
            alg.run()
        return w, db

    try:
        sim.ev('serial_twin')
        try:
            wt, dbt = one(1, 't', False)
        except (kernel.Deadlock, kernel.StepCap, kernel.Livelock):
            raise
        except Exception as e:
            if type(e).__name__ == 'HarnessError':
                raise
            # no failure is injected in this family: the objective answered every call, yet the serial reference run died
            ctx.violation('exception_in_worker', 'serial reference run', 'the serial %s run raised %r although the objective never '
                          'failed (%d calls answered)' % (kind, e, sum(1 for w_, _ in dbs for _c in w_.calls)))
            return core.result(ctx, sim)
        sim.ev('parallel_run')
        try:
            wp, dbp = one(workers, 'p', True)
        except kernel.Deadlock:
            ctx.violation('deadlock', site, 'all workers blocked with no deadline during a %s run' % kind)
            return core.result(ctx, sim)
        except kernel.StepCap:
            raise
        except Exception as e:
            ctx.violation('exception_in_worker', site, '%s run with %d workers raised %r; the serial run of the same seed finished'
                          % (kind, workers, e))
            return core.result(ctx, sim)
        lt, lp = _ledger(wt.problem), _ledger(wp.problem)
        ctx.check()
        if len(lt) != len(lp):
            ctx.violation('differs_from_serial', site, 'parallel run recorded %d individuals, serial run %d' % (len(lp), len(lt)))
        else:
            for k, (a, b) in enumerate(zip(lp, lt)):
                ctx.check()
                if a != b:
                    vsite = site
                    ind = wp.problem.individuals[k]
                    nshare = sum(1 for o in wp.problem.individuals if o.features is ind.features)
                    if kind == 'psoga' and nshare > 1 and a[:3] == b[:3] and a[3][:-1] == b[3][:-1] and a[4:] == b[4:]:
                        # only the feasibility marker differs and the design shares its features dict with another one
                        vsite = 'PSOGA.run (GA offspring share one features dict)'
                    ctx.violation('differs_from_serial', vsite, 'recorded individual %d: parallel %r, serial %r' % (k, a, b))
                    break
        ct = sorted(tuple(c.vector) for c in wt.calls)
        cp = sorted(tuple(c.vector) for c in wp.calls)
        if ct != cp:
            ctx.violation('call_count', site, 'objective saw %d calls in the parallel run, %d in the serial run (multisets of vectors differ)'
                          % (len(cp), len(ct)))
        if use_db and not ctx.violations:
            _, rows, _ = _view_rows(dbp)
            _, rowst, _ = _view_rows(dbt)
            counts, _ = _raw_counts(dbp)
            for i, c in counts.items():
                if c != 1:
                    ctx.violation('row_duplicate', 'SqliteDataStore.sync_individual', 'id %r has %d rows' % (i, c))
            if sorted(rows) != sorted(rowst):
                ctx.violation('row_missing', 'SqliteDataStore.sync_individual', 'parallel store holds ids %r..., serial store %r...'
                              % (sorted(rows)[:8], sorted(rowst)[:8]))
            else:
                for i in rows:
                    ctx.check()
                    if _row_of(rows[i]) != _row_of(rowst[i]):
                        ctx.violation('row_ne_final', 'SqliteDataStore.sync_individual', 'row id %d: parallel %r, serial %r'
                                      % (i, _row_of(rows[i]), _row_of(rowst[i])))
                        break
        ctx.sig('whole', kind, wev, N, G, workers, use_db, len(lp), tuple(sim.sigs[:3]),
                tuple(sorted((k, v) for k, v in sim.stats.items() if k in ('stall', 'busy_timeout'))))
    finally:
        for w, db in dbs:
            w.problem.data_store = None
            W.remove_db(db)
    return core.result(ctx, sim)


def _rows_at_batch_end(ctx, db, batch):
    site = 'SqliteDataStore.sync_individual'
    try:
        _, rows, _ = _view_rows(db)
    except Exception as e:
        ctx.violation('row_missing', site, 'store unreadable when evaluate() returned: %r' % (e,))
        return
    for k, x in enumerate(batch):
        if x.state != x.State.EVALUATED:
            continue
        ctx.check()
        if x.id not in rows:
            ctx.violation('row_missing', site, 'evaluated design %d (id %d) has no row when evaluate() returns' % (k, x.id))
            return
        if _row_of(rows[x.id]) != _row_fields(x):
            ctx.violation('row_ne_final', site, 'row of design %d (id %d) %r differs from its data %r when evaluate() returns'
                          % (k, x.id, _row_of(rows[x.id]), _row_fields(x)))
            return


def _run_batch(D):
    from artap.individual import Individual
    sim = W.begin_run(D)
    ctx = core.Ctx(PID, D, sim)
    ev_kind = ('simple', 'gradient', 'worst')[D.weighted('cfg', 'evaluator', (3, 1, 1))]
    use_db = D.weighted('cfg', 'store', (1, 3)) == 1
    workers = 2 + D.dec('cfg', 'workers', 3)
    nbatches = 1 + D.weighted('cfg', 'nbatches', (3, 1))
    w = W.World(D, sim, fail='none', with_tol=True, precision=0, name='c07')
    twin = W.World(D, sim, fail='none', with_tol=True, precision=0, name='c07')
    db = dbt = None
    late_store = use_db and D.dec('cfg', 'late_store', 3) == 1         # "algorithm first, store second" is a legal order
    if use_db:
        db = W.fresh_db('c07')
        dbt = W.fresh_db('c07t')
        if not late_store:
            W.attach_store(w, db)
            W.attach_store(twin, dbt)
    alg = W.dummy_algorithm(w, workers=workers, evaluator=ev_kind)
    algt = W.dummy_algorithm(twin, workers=1, evaluator=ev_kind)
    if late_store:
        W.attach_store(w, db)
        W.attach_store(twin, dbt)
        ctx.probe('store_attached_after_algorithm')
    ctx.sample = {'family': 'batch', 'evaluator': ev_kind, 'store': 'sqlite' if use_db else 'dummy',
                  'workers': workers, 'policy': sim.policy, 'stall_p': sim.stall_p, 'timed': sim.timed,
                  'n': w.n, 'm': w.m, 'ncons': w.ncons, 'box': w.boxkind, 'batches': []}
    prev = []
    prevt = []
    try:
        for b in range(nbatches):
            nd = 2 + D.size('cfg', ('ndes', b), 9)
            vecs = [W.gen_vector(w, D, 'work', ('v', b, i)) for i in range(nd)]
            if use_db and prev and ev_kind == 'simple' and D.dec('cfg', ('reload', b), 3) == 1:
                # a later session continues on the same file (parallel and serial twin alike): the designs read back
                # evaluated are evaluated designs, re-submitting them must not reach the objective in either mode
                lp = sorted(W.reopen_session(w, db), key=lambda i: i.id)
                lt = sorted(W.reopen_session(twin, dbt), key=lambda i: i.id)
                if len(lp) == len(lt) and all(list(a.vector) == list(c.vector) for a, c in zip(lp, lt)):
                    prev, prevt = lp, lt
                    ctx.probe('reloaded_session')
                else:
                    prev, prevt = [], []
                alg = W.dummy_algorithm(w, workers=workers, evaluator=ev_kind)
                algt = W.dummy_algorithm(twin, workers=1, evaluator=ev_kind)
                sim.ev('reload', b, len(prev))
            batch = [Individual(v) for v in vecs]
            shared_id = None
            if not use_db and ev_kind == 'simple' and nd >= 2 and D.dec('cfg', ('sameid', b), 5) == 1:
                # two design objects that carry one id (deep copies of a design, designs read back from two result files):
                # they are two designs of the batch.  (Not with a store: one row per id, the last writer would win.)
                shared_id = (D.dec('cfg', ('sameid_a', b), nd), D.dec('cfg', ('sameid_b', b), nd))
                if shared_id[0] != shared_id[1]:
                    batch[shared_id[1]].id = batch[shared_id[0]].id
                    ctx.probe('two_designs_one_id')
                else:
                    shared_id = None
            reuse = 0
            if prev and D.dec('cfg', ('reuse', b), 2):
                reuse = min(len(prev), 1 + D.dec('cfg', ('nreuse', b), 3))
                batch = prev[:reuse] + batch
            ncalls0 = len(w.calls)
            fresh = batch[reuse:]
            ctx.sample['batches'].append({'designs': nd, 'reused': reuse})
            sim.ev('batch', b, nd, reuse)
            from .. import seams as _seams
            outer = _seams.backend_context('loky' if D.dec('fault', ('outer_backend', b), 5) == 1 else None)
            if outer.name:
                ctx.probe('inside_process_backend_context')     # the caller's own joblib context must not un-share the designs
            if use_db and D.flag('fault', ('foreign_lock', b), 0.15):
                # another process (a viewer, a backup) holds the database exclusively for a while: the workers' writes are
                # retried until it is gone; every design is still persisted when evaluate() returns
                _seams.take_foreign_lock(sim, db, (3.0, 12.0, 31.0)[D.dec('fault', ('foreign_hold', b), 3)])
                ctx.probe('foreign_lock')
            with W.quiet(), outer:
                try:
                    alg.evaluate(batch)
                except kernel.Deadlock:
                    ctx.violation('deadlock', 'Evaluator.evaluate_parallel',
                                  'all workers blocked with no deadline in batch %d' % b)
                    break
                except kernel.StepCap:
                    raise
                except Exception as e:
                    ctx.violation('exception_in_worker', 'Evaluator.evaluate_parallel',
                                  'parallel evaluate raised %r without any injected failure' % (e,))
                    break
            if sim.foreign_lock is not None:
                _seams.release_foreign_lock(sim)      # the foreign holder never outlives the operation it disturbed
            # ---- reference: the same batch through the same code, serially
            fresht = [Individual(v) for v in vecs]
            if shared_id:
                fresht[shared_id[1]].id = fresht[shared_id[0]].id
            batcht = prevt[:reuse] + fresht
            with W.quiet():
                try:
                    algt.evaluate(batcht)
                except (kernel.Deadlock, kernel.StepCap, kernel.Livelock):
                    raise
                except Exception as e:
                    if type(e).__name__ == 'HarnessError':
                        raise
                    ctx.violation('exception_in_worker', 'serial reference batch', 'serial evaluate raised %r although the '
                                  'objective never failed' % (e,))
                    break
            _compare(ctx, w, twin, batch, batcht, fresh, ncalls0, ev_kind, b)
            if use_db:
                _compare_rows(ctx, db, dbt, batch, batcht, ev_kind)
            prev = batch
            prevt = batcht
            if ctx.violations:
                break
        if sim.sigs and workers >= 2:
            ctx.sig('batch', ev_kind, use_db, workers, w.n, w.m, w.ncons,
                    tuple(sorted((k, v) for k, v in sim.stats.items() if k in ('stall', 'busy_timeout'))),
                    tuple(tuple(round(c, 9) for c in i.costs[:1]) for i in prev[:4]))
        else:
            ctx.checks = 0
    finally:
        alg = algt = None
        from .. import seams as _seams2
        _seams2.release_foreign_lock(sim)
        w.problem.data_store = None
        twin.problem.data_store = None
        if db:
            W.remove_db(db)
            W.remove_db(dbt)
    return core.result(ctx, sim)


def _compare(ctx, w, twin, batch, batcht, fresh, ncalls0, ev_kind, b):
    site = 'Evaluator.evaluate_parallel'
    new_calls = w.calls[ncalls0:]
    by_obj = {}
    for c in new_calls:
        by_obj[c.obj] = by_obj.get(c.obj, 0) + 1
    known = set()
    for k, (p, t) in enumerate(zip(batch, batcht)):
        is_fresh = any(p is x for x in fresh)
        fam_p = _family(p) if ev_kind != 'simple' else [p]
        fam_t = _family(t) if ev_kind != 'simple' else [t]
        if len(fam_p) != len(fam_t):
            ctx.violation('differs_from_serial', site, 'design %d: %d neighbour designs, serial has %d'
                          % (k, len(fam_p) - 1, len(fam_t) - 1))
            continue
        for j, (x, y) in enumerate(zip(fam_p, fam_t)):
            known.add(id(x))
            ctx.check()
            if x.state != y.state or (x.state != x.State.EVALUATED and not (x.state == 'evaluated' and not is_fresh)):
                ctx.violation('differs_from_serial', site, 'design %d/%d state %s, serial %s' % (k, j, x.state, y.state))
            elif list(x.costs) != list(y.costs):
                ctx.violation('differs_from_serial', site, 'design %d/%d vector %r costs %r, serial %r'
                              % (k, j, x.vector, x.costs, y.costs))
            elif list(x.costs_signed) != list(y.costs_signed):
                ctx.violation('differs_from_serial', site, 'design %d/%d signed costs %r, serial %r'
                              % (k, j, x.costs_signed, y.costs_signed))
            elif list(x.vector) != list(y.vector):
                ctx.violation('differs_from_serial', site, 'design %d/%d vector changed to %r (serial %r)'
                              % (k, j, x.vector, y.vector))
            exp = 1 if (is_fresh or j > 0) else 0   # neighbour designs are rebuilt (new objects) on every submission
            got = by_obj.get(id(x), 0)
            if got != exp:
                ctx.violation('call_count', site, 'design %d/%d (id %d) objective called %d times in batch %d, expected %d'
                              % (k, j, x.id, got, b, exp))
        if ev_kind == 'gradient':
            gp = [float(v) for v in p.features.get('gradient', [])]
            gt = [float(v) for v in t.features.get('gradient', [])]
            if gp != gt:
                ctx.violation('differs_from_serial', site, 'design %d gradient %r, serial %r' % (k, gp, gt))
        if ev_kind == 'worst':
            if p.features.get('sensitivity') != t.features.get('sensitivity'):
                ctx.violation('differs_from_serial', site, 'design %d sensitivity %r, serial %r'
                              % (k, p.features.get('sensitivity'), t.features.get('sensitivity')))
    stray = [c for c in new_calls if c.obj not in known]
    if stray:
        ctx.violation('call_count', site, '%d objective calls on objects that are not designs of the batch '
                      '(first: id %d vector %r)' % (len(stray), stray[0].ind_id, stray[0].vector))


def _compare_rows(ctx, db, dbt, batch, batcht, ev_kind):
    site = 'SqliteDataStore.sync_individual'
    try:
        _, rows, dup = _view_rows(db)
        _, rowst, _ = _view_rows(dbt)
        counts, total = _raw_counts(db)
    except Exception as e:
        ctx.violation('row_missing', site, 'store unreadable after the batch: %r' % (e,))
        return
    for i, c in counts.items():
        if c != 1:
            ctx.violation('row_duplicate', site, 'id %r has %d rows' % (i, c))
    for k, (p, t) in enumerate(zip(batch, batcht)):
        fam_p = _family(p) if ev_kind != 'simple' else [p]
        fam_t = _family(t) if ev_kind != 'simple' else [t]
        for j, (x, y) in enumerate(zip(fam_p, fam_t)):
            ctx.check()
            if x.id not in rows:
                ctx.violation('row_missing', site, 'evaluated design %d/%d (id %d) has no row when evaluate() returns'
                              % (k, j, x.id))
                continue
            r = _row_of(rows[x.id])
            if y.id in rowst:
                rt = _row_of(rowst[y.id])
                if r != rt:
                    ctx.violation('row_ne_final', site, 'row of design %d/%d (id %d) %r differs from the serial row %r'
                                  % (k, j, x.id, r, rt))
                    continue
            if ev_kind == 'simple':
                fin = _row_fields(x)
                if r != fin:
                    ctx.violation('row_ne_final', site, 'row of design %d (id %d) %r differs from its final data %r'
                                  % (k, x.id, r, fin))


def _run_store(D):
    """2-3 simulated threads synchronise harness-built individuals through one store"""
    from artap.individual import Individual
    sim = W.begin_run(D)
    ctx = core.Ctx(PID, D, sim)
    w = W.World(D, sim, fail='none', precision=0, name='c07s')
    db = W.fresh_db('c07s')
    store = W.attach_store(w, db)
    nthreads = 2 + D.dec('cfg', 'sthreads', 2)
    per = 1 + D.dec('cfg', 'sper', 4)
    ctx.sample = {'family': 'store', 'threads': nthreads, 'syncs_per_thread': per, 'policy': sim.policy,
                  'stall_p': sim.stall_p, 'timed': sim.timed}
    plans = []
    inds = []
    for t in range(nthreads):
        mine = []
        for i in range(per):
            ind = Individual(W.gen_vector(w, D, 'work', ('sv', t, i)))
            ind.costs = w.f(ind.vector)
            ind.calc_signed_costs(w.signs)
            ind.state = ind.State.EVALUATED
            mine.append(ind)
            inds.append(ind)
        twice = D.dec('cfg', ('twice', t), 2)
        plans.append((mine, twice))
    final = {}

    def make(mine, twice):
        def fn():
            for k, ind in enumerate(mine):
                ind.population_id = 1
                store.sync_individual(ind)
                final[ind.id] = _row_fields(ind)
                if twice and k == 0:
                    ind.population_id = 7
                    ind.custom = {'resync': True}
                    store.sync_individual(ind)
                    final[ind.id] = _row_fields(ind)
        return fn

    try:
        with W.quiet():
            try:
                excs = sim.run_workers([make(m, t) for m, t in plans])
            except kernel.Deadlock:
                excs = []
                ctx.violation('deadlock', 'SqliteDataStore.sync_individual', 'all writers blocked with no deadline')
        for idx, e in excs:
            ctx.violation('exception_in_worker', 'SqliteDataStore.sync_individual', 'writer %d raised %r' % (idx, e))
        if not ctx.violations:
            _, rows, dup = _view_rows(db)
            counts, total = _raw_counts(db)
            for i, c in counts.items():
                if c != 1:
                    ctx.violation('row_duplicate', 'SqliteDataStore.sync_individual', 'id %r has %d rows' % (i, c))
            for ind in inds:
                ctx.check()
                if ind.id not in rows:
                    ctx.violation('row_missing', 'SqliteDataStore.sync_individual',
                                  'synchronised individual id %d has no row' % ind.id)
                elif _row_of(rows[ind.id]) != final[ind.id]:
                    ctx.violation('row_ne_final', 'SqliteDataStore.sync_individual', 'row of id %d %r differs from %r'
                                  % (ind.id, _row_of(rows[ind.id]), final[ind.id]))
        ctx.sig('store', nthreads, per, tuple(sorted((k, v) for k, v in sim.stats.items()
                                                     if k in ('stall', 'busy_timeout'))))
    finally:
        w.problem.data_store = None
        store = None
        W.remove_db(db)
    return core.result(ctx, sim)


def replay(overrides):
    D = Decisions(None, overrides)
    return core.guarded(PID, run_one, D, None)
