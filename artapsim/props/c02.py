"""C02 – non-dominated sorting assigns every individual its true Pareto rank (in-run invariant).

After every fast_nondominated_sorting call made by the real optimisers the front
numbers are recomputed with the naive O(n^2) definition (1 if nothing dominates it,
else 1 + max front of its dominators) and compared.
"""
from .. import core, monitors, refmodels as R, runfam, world as W

PID = 'C02'
LEVEL = 'exploration'
RULE = ('one case = one complete NSGA-II or OMOPSO run (the two algorithms that sort), N 2-10, G 1-5, m 1-4, constraints, '
        'smooth or tie-heavy (quantised) objectives, failure plans, extreme draws; after every sorting call the rank of every '
        'member is compared with the definition, and the pool is sorted again in reversed and in a seeded shuffled order '
        '(on copies) to check order independence.  Non-trivial = at least one pool of >= 2 members was judged; distinct = '
        'hash of (configuration, calls, last vectors).')
ASSUMPTIONS = [
    'in-run invariant only: "all populations" is covered on the pools that arise in runs (plus their reorderings)',
    'ranks judged with textbook constrained dominance on the signed costs',
]
COMPONENTS = {
    'real': ['artap.operators.Selector.fast_nondominated_sorting', 'artap.operators.ParetoDominance', 'NSGAII / OMOPSO run loops'],
    'stub': ['user objective', 'PRNG seam', 'joblib', 'time.time', 'uuid1'],
}
PROBES_EXPECTED = ['tie_at_infinity_many_objectives', 'mixed_design_classes', 'sorting_after_failed_call', 'epsilon_configured_selector', 'sort_calls', 'duplicate_costs', 'mixed_feasibility', 'depth_ge_3', 'depth_ge_5', 'all_front_one',
                   'reordered_pools', 'rescaled_pools', 'nsga2', 'omopso']


def hooks(ctx, w, D):
    st = {'n': 0}
    fn = None

    def judge(individuals, site, what):
        costs = [list(i.costs_signed) for i in individuals]
        exp = R.ranks(costs)
        for k, ind in enumerate(individuals):
            ctx.check()
            fr = ind.features.get('front_number')
            if fr is None or isinstance(fr, bool) or not isinstance(fr, int):
                ctx.violation('unranked', site, '%s: member %d (signed costs %r) has front number %r' % (what, k, costs[k], fr))
                return False
            if fr != exp[k]:
                doms = [j for j in range(len(costs)) if R.dominates(costs[j], costs[k]) == 1]
                ctx.violation('rank_mismatch', site, '%s: member %d (signed costs %r) has front %d, definition gives %d '
                              '(dominated by %d members with fronts %r)' % (what, k, costs[k], fr, exp[k], len(doms),
                                                                         [exp[j] for j in doms][:6]))
                return False
        return exp

    def sorting(orig, self, individuals):
        r = orig(self, individuals)
        site = 'Selector.fast_nondominated_sorting'
        ctx.probe('sort_calls')
        st['n'] += 1
        exp = judge(individuals, site, 'pool of %d' % len(individuals))
        if not exp:
            return r
        costs = [tuple(i.costs_signed) for i in individuals]
        if len(set(costs)) < len(costs):
            ctx.probe('duplicate_costs')
        if len({c[-1] for c in costs}) > 1:
            ctx.probe('mixed_feasibility')
        d = max(exp)
        if d >= 3:
            ctx.probe('depth_ge_3')
        if d >= 5:
            ctx.probe('depth_ge_5')
        if d == 1 and len(exp) > 1:
            ctx.probe('all_front_one')
        # order independence on copies (fresh feature dicts, same ids and costs)
        n = len(individuals)
        if n >= 2 and st['n'] <= 12:
            from artap.individual import Individual
            saved = Individual.counter          # the clones must not shift the ids of the run's own designs
            if st['n'] % 3 == 1:
                # a ranking call that failed earlier (a member without results: the comparator raises) must not disable the
                # selector for the valid populations that follow
                bad = individuals[0].__class__(list(individuals[0].vector))
                bad.costs_signed = []
                ok_ = individuals[0].__class__(list(individuals[0].vector))
                ok_.costs_signed = list(individuals[0].costs_signed)
                try:
                    orig(self, [ok_, bad])
                except Exception:
                    ctx.probe('sorting_after_failed_call')
            for variant in (0, 1, 2, 3, 4, 5):
                order = list(range(n))[::-1] if variant in (0, 3, 5) else sorted(
                    range(n), key=lambda i: D.dec('work', ('shuf', st['n'], i), 1 << 16))
                clones = []
                for i in order:
                    src = individuals[i]
                    if variant == 5 and len(clones) % 3 == 1:
                        # a population that mixes design classes (designs read back from a store are plain Individuals, the
                        # neighbours of the robust evaluators too; a second algorithm on the same problem brings its own
                        # class) with the ids the library itself hands out
                        c = Individual(list(src.vector))
                    elif variant == 5 and len(clones) % 3 == 2:
                        from artap.algorithm_swarm import IndividualSwarm
                        from artap.algorithm_NSGAII import IndividualNSGAII
                        c = (IndividualNSGAII if isinstance(src, IndividualSwarm) else IndividualSwarm)(list(src.vector))
                    else:
                        c = src.__class__(list(src.vector))
                    if variant != 5:
                        c.id = src.id
                    c.costs_signed = list(src.costs_signed)
                    if variant == 4:
                        # at least four objectives (copies of objective 0 change no dominance relation) and one more in which
                        # every member holds the same +inf (a penalty value): an exact tie there, the ranks stay what they were
                        obj = c.costs_signed[:-1]
                        obj = obj + [obj[0]] * max(0, 3 - len(obj)) + [float('inf')]
                        c.costs_signed = obj + [c.costs_signed[-1]]
                    if variant == 2:
                        # a strictly increasing map of one objective (huge scale and offset) leaves every rank unchanged,
                        # but sums / differences of costs now lose the small objectives to rounding
                        c.costs_signed[0] = float(c.costs_signed[0]) * 1e17 + 4e17
                    c.costs = list(src.costs)
                    clones.append(c)
                if variant == 3:
                    # ranking is by Pareto dominance whatever the tournament is configured with: a tournament selector set up
                    # with the epsilon comparator (a constructor option) ranks the same population the same way
                    from artap.operators import TournamentSelector, EpsilonDominance
                    m_ = len(clones[0].costs_signed) - 1
                    sel = TournamentSelector(self.parameters, dominance=EpsilonDominance, epsilons=[0.05] * max(1, m_))
                    orig(sel, clones)
                    ctx.probe('epsilon_configured_selector')
                else:
                    orig(self, clones)
                ctx.probe('reordered_pools')
                if variant == 2:
                    ctx.probe('rescaled_pools')
                if variant == 4:
                    ctx.probe('tie_at_infinity_many_objectives')
                if variant == 5:
                    ctx.probe('mixed_design_classes')
                if not judge(clones, site, 'pool of %d in %s order%s' % (n, 'reversed' if variant in (0, 3, 5) else 'shuffled',
                                                                           ' with objective 0 mapped to c*1e17+4e17' if variant == 2 else ' by a tournament selector configured with the epsilon comparator' if variant == 3 else ' padded to >= 4 objectives with a common +inf objective' if variant == 4 else ' as a mix of design classes with library-assigned ids' if variant == 5 else '')):
                    break
            Individual.counter = saved
        return r

    return dict(sorting=sorting)


def run_one(D, opts=None):
    info = runfam.setup(D, PID, algos=('nsga2', 'omopso'), precision=0, fails=('none', 'light'), fail_weights=(4, 1),
                        p_exts=(0.0, 0.05), p_ext_weights=(3, 1), max_N=10)
    ctx = info.ctx
    ctx.probe(info.kind)
    monitors.set_hooks(**hooks(ctx, info.w, D))
    runfam.execute(info)
    runfam.judge_abort(info, 'run of ' + info.kind, clause=None)
    return runfam.finish(info)
