"""C17 – result queries and quality indicators are faithful views of the recorded data.

Query clauses (core: reads over a recorded history): after every run (including runs
with failure re-rolls, where a design's vector changed between creation and
recording, and runs read back through a read-mode view of an SQLite store) and after
generated direct recordings with unsorted tags and duplicate values, a harness
ledger is compared with every query.  Indicator clauses (in-run): identities of gd
and epsilon_add on fronts the runs produced.
"""
import math

from .. import core, kernel, monitors, refmodels as R, runfam, world as W

PID = 'C17'
LEVEL = 'exploration'
RULE = ('one case = one recorded history + all queries over it: either a complete run of NSGA-II / eps-MOEA / OMOPSO / SMPSO / '
        'PSOGA / Sweep (optionally with failure re-rolls, optionally read back from an SQLite store through a read-mode view) or '
        'a generated direct recording of 1-12 individuals with unsorted generation tags, duplicate parameter / cost values and '
        'maximised objectives.  Queries: population (explicit tag and default), table, parameters, costs, goal_on_parameter, '
        'parameter_on_goal, parameter_on_parameter (sorted and unsorted), find_optimum for every goal; indicators gd and '
        'epsilon_add on the recorded fronts.  Non-trivial = ledger non-empty and every query compared; distinct = hash of '
        '(family, configuration, ledger size, tags, first costs).')
ASSUMPTIONS = [
    'indicator clauses are in-run invariants: only point sets that arise from runs / recordings, plus their shifts by d >= 0',
    'sorted listings: the multiset of (key, value) pairs must be preserved and the key list sorted; the order among equal keys is free',
    'gd compared with a naive nearest-neighbour mean to 1e-9 relative',
]
COMPONENTS = {
    'real': ['artap.results.Results', 'artap.problem.Problem.population/populations/last_population', 'artap.quality_indicator.gd / epsilon_add',
             'run family: the algorithms; store variant: SqliteDataStore + ProblemViewDataStore'],
    'stub': ['user objective with failure plan', 'PRNG seam', 'joblib', 'time.time', 'uuid1'],
}
PROBES_EXPECTED = ['same_vector_recorded_again_with_other_costs', 'resynchronised_before_readback', 'reopened_session_readback', 'run_family', 'direct_family', 'view_readback', 'maximised_goal_optimum', 'duplicate_values', 'unsorted_tags',
                   'rerolled_designs', 'gd_checked', 'eps_checked', 'queried_again_after_more_recordings', 'changed_without_count_change',
                   'eps_integer_reference']


def _pairs(a, b):
    return sorted(zip([float(x) for x in a], [float(y) for y in b]))


def check_queries(ctx, p, ledger, tags_in_order, res=None):
    """ledger: list of (individual, tag, vector, costs) in recording order; p: the problem the queries read;
    res: a Results object that may already have answered queries about an earlier state of the same problem"""
    from artap.results import Results
    if res is None:
        res = Results(p)
    site = 'Results'
    ctx.check()
    by_tag = {}
    for ind, tag, vec, costs in ledger:
        by_tag.setdefault(tag, []).append(ind)
    # population queries
    for tag, exp in by_tag.items():
        got = res.population(tag)
        if len(got) != len(exp) or any(a is not b for a, b in zip(got, exp)):
            ctx.violation('population', 'Results.population', 'population(%r) returned %d individuals (ids %r), recorded %d (ids %r)'
                          % (tag, len(got), [i.id for i in got][:8], len(exp), [i.id for i in exp][:8]))
            return
    last = max(by_tag)
    got = res.population()
    exp = by_tag[last]
    if len(got) != len(exp) or any(a is not b for a, b in zip(got, exp)):
        ctx.violation('population', 'Results.population', 'population() returned %d individuals, the last generation %r holds %d'
                      % (len(got), last, len(exp)))
        return
    # table: every row pairs one individual's parameters with its own costs
    n = len(p.parameters)
    rows = res.table(transpose=False)
    exp_rows = sorted(tuple(float(x) for x in list(vec) + list(costs)) for _, _, vec, costs in ledger)
    if sorted(tuple(float(x) for x in r) for r in rows) != exp_rows:
        ctx.violation('table_pairing', 'Results.table', 'table rows are not the recorded (parameters + costs) rows: got %r ... expected %r ...'
                      % (rows[:2], exp_rows[:2]))
        return
    cols = res.table()
    if rows and [tuple(float(x) for x in c) for c in cols] != [tuple(float(r[k]) for r in rows) for k in range(len(rows[0]))]:
        ctx.violation('table_pairing', 'Results.table', 'transposed table is not the transpose of the row table')
        return
    if sorted(tuple(float(x) for x in v) for v in res.parameters()) != sorted(tuple(float(x) for x in vec) for _, _, vec, _ in ledger):
        ctx.violation('listing_pairing', 'Results.parameters', 'parameters() is not the multiset of recorded vectors')
        return
    m = len(ledger[0][3])
    cs = res.costs()
    for j in range(m):
        if [float(x) for x in cs[j]] != [float(c[j]) for _, _, _, c in ledger]:
            ctx.violation('listing_pairing', 'Results.costs', 'costs()[%d] differs from the recorded costs in recording order' % j)
            return
    # per-goal / per-parameter listings
    pnames = [q['name'] for q in p.parameters]
    gnames = [c['name'] for c in p.costs][:m]
    for tag in list(by_tag)[:3] + [-1]:
        members = by_tag[last] if tag == -1 else by_tag[tag]
        for pi, pn in enumerate(pnames[:3]):
            for gi, gn in enumerate(gnames[:3]):
                expp = _pairs([i.vector[pi] for i in members], [i.costs[gi] for i in members])
                for srt in (False, True):
                    a, b = res.goal_on_parameter(pn, gn, population_id=tag, sorted=srt)
                    if _pairs(a, b) != expp or (srt and list(a) != sorted(a)):
                        ctx.violation('sorted_pairing' if srt else 'listing_pairing', 'Results.goal_on_parameter',
                                      'goal_on_parameter(%s, %s, %r, sorted=%s) = %r / %r breaks the (parameter, cost) pairing of %r'
                                      % (pn, gn, tag, srt, list(a)[:5], list(b)[:5], expp[:5]))
                        return
                    g2, p2 = res.parameter_on_goal(gn, pn, population_id=tag, sorted=srt)
                    if _pairs(p2, g2) != expp or (srt and list(g2) != sorted(g2)):
                        ctx.violation('sorted_pairing' if srt else 'listing_pairing', 'Results.parameter_on_goal',
                                      'parameter_on_goal(%s, %s, %r, sorted=%s) = %r / %r breaks the pairing of %r'
                                      % (gn, pn, tag, srt, list(g2)[:5], list(p2)[:5], expp[:5]))
                        return
            for qi, qn in enumerate(pnames[:3]):
                expp = _pairs([i.vector[pi] for i in members], [i.vector[qi] for i in members])
                for srt in (False, True):
                    a, b = res.parameter_on_parameter(pn, qn, population_id=tag, sorted=srt)
                    if _pairs(a, b) != expp or (srt and list(a) != sorted(a)):
                        ctx.violation('sorted_pairing' if srt else 'listing_pairing', 'Results.parameter_on_parameter',
                                      'parameter_on_parameter(%s, %s, %r, sorted=%s) breaks the pairing' % (pn, qn, tag, srt))
                        return
    # optimum
    for gi, gn in enumerate(gnames):
        crit = p.costs[gi].get('criteria', 'minimize')
        opt = res.find_optimum(gn)
        if not any(opt is i for i, _, _, _ in ledger):
            ctx.violation('optimum', 'Results.find_optimum', 'find_optimum(%s) returned an individual that was not recorded' % gn)
            return
        vals = [float(c[gi]) for _, _, _, c in ledger]
        best = max(vals) if crit == 'maximize' else min(vals)
        if crit == 'maximize':
            ctx.probe('maximised_goal_optimum')
        if float(opt.costs[gi]) != best:
            ctx.violation('optimum', 'Results.find_optimum', 'find_optimum(%s) (%s) returned cost %r, the %s over all recorded individuals is %r'
                          % (gn, crit, float(opt.costs[gi]), 'maximum' if crit == 'maximize' else 'minimum', best))
            return
    if m >= 1 and not gnames:
        return
    opt0 = res.find_optimum()
    if not any(opt0 is i for i, _, _, _ in ledger):
        ctx.violation('optimum', 'Results.find_optimum', 'find_optimum() returned an individual that was not recorded')


def check_indicators(ctx, D, points, key):
    """identities of gd / epsilon_add on a finite point set produced by a run"""
    from artap.quality_indicator import gd, epsilon_add
    pts = [tuple(float(x) for x in q) for q in points]
    pts = [q for q in pts if all(math.isfinite(x) for x in q)]
    if len(pts) < 1:
        return
    ref = pts[:max(1, len(pts) // 2 + 1)]
    comp = pts
    site = 'quality_indicator'
    try:
        g = float(gd(ref, comp))
    except Exception as e:
        ctx.violation('gd', 'quality_indicator.gd', 'gd raised %r on %d reference / %d computed points' % (e, len(ref), len(comp)))
        return
    ctx.check()
    ctx.probe('gd_checked')
    naive = sum(min(math.dist(c, r) for r in ref) for c in comp) / len(comp)
    if abs(g - naive) > 1e-9 * max(1.0, abs(naive)):
        ctx.violation('gd', 'quality_indicator.gd', 'gd = %r, mean nearest-reference distance = %r (ref %r..., computed %r...)'
                      % (g, naive, ref[:2], comp[:2]))
        return
    all_in = all(any(c == r for r in ref) for c in comp)
    if (g == 0.0) != all_in:
        ctx.violation('gd', 'quality_indicator.gd', 'gd = %r but "every computed point is a reference point" is %s' % (g, all_in))
        return
    if float(gd(comp, comp)) != 0.0:
        ctx.violation('gd', 'quality_indicator.gd', 'gd(A, A) = %r' % (float(gd(comp, comp)),))
        return
    try:
        e0 = float(epsilon_add(comp, comp))
        d = (0.0, 0.5, 1e-3, 7.0)[D.dec('work', ('shift', key), 4)]
        shifted = [tuple(x + d for x in q) for q in comp]
        e1 = float(epsilon_add(comp, shifted))
        e2 = float(epsilon_add(ref, comp))
    except Exception as e:
        ctx.violation('eps_add', 'quality_indicator.epsilon_add', 'epsilon_add raised %r on finite point sets of %d points' % (e, len(comp)))
        return
    ctx.probe('eps_checked')
    # integer-typed reference points (a hand-written reference front) against a fractional computed set
    iref = [tuple(int(round(x)) for x in q) for q in comp if all(abs(x) < 1e9 for x in q)]
    if iref and d > 0:
        try:
            ei = float(epsilon_add(iref, [tuple(x + d for x in q) for q in iref]))
        except Exception as e:
            ctx.violation('eps_add', 'quality_indicator.epsilon_add', 'epsilon_add raised %r for an integer-valued reference set' % (e,))
            return
        ctx.probe('eps_integer_reference')
        if abs(ei - d) > 1e-9 * max(1.0, d):
            ctx.violation('eps_add', 'quality_indicator.epsilon_add', 'epsilon_add(A, A + %r) = %r for the integer-valued set A = %r...'
                          % (d, ei, iref[:3]))
            return
    if e0 != 0.0:
        ctx.violation('eps_add', 'quality_indicator.epsilon_add', 'epsilon_add(A, A) = %r for A = %r...' % (e0, comp[:3]))
        return
    if abs(e1 - d) > 1e-9 * max(1.0, d):
        ctx.violation('eps_add', 'quality_indicator.epsilon_add', 'epsilon_add(A, A + %r) = %r' % (d, e1))
        return
    naive_e = max(min(max(c[i] - r[i] for i in range(len(r))) for c in comp) for r in ref)
    naive_e = max(0.0, naive_e)
    if e2 < 0 or abs(e2 - naive_e) > 1e-9 * max(1.0, abs(naive_e)):
        ctx.violation('eps_add', 'quality_indicator.epsilon_add', 'epsilon_add(ref, computed) = %r, max-min-max gives %r' % (e2, naive_e))


def run_one(D, opts=None):
    if D.weighted('cfg', 'family', (3, 2)) == 1:
        return _direct(D)
    return _run(D)


def _run(D):
    use_store = D.dec('cfg', 'store', 3) == 1
    info = runfam.setup(D, PID, algos=('nsga2', 'epsmoea', 'omopso', 'smpso', 'psoga'), precision=0, fails=('none', 'light', 'heavy'),
                        fail_weights=(3, 2, 1), p_exts=(0.0, 0.05), p_ext_weights=(3, 1), max_N=8, max_G=4, store=False)
    ctx, w = info.ctx, info.w
    ctx.probe('run_family')
    path = None
    if use_store:
        path = W.fresh_db('c17')
        W.attach_store(w, path)
    try:
        runfam.execute(info)
        if runfam.judge_abort(info, 'run of ' + info.kind, clause=None):
            return runfam.finish(info)
        p = w.problem
        if any(c.attempt > 0 for c in w.calls):
            ctx.probe('rerolled_designs')
        if use_store:
            if D.dec('cfg', 'readback', 3) == 1:
                # a later session continues on the file (mode "write" loads the recorded individuals into a new Problem)
                ctx.probe('reopened_session_readback')
                W.reopen_session(w, path)
                v = w.problem
            else:
                ctx.probe('view_readback')
                if len(p.individuals) >= 3 and D.dec('cfg', 'resync_before_view', 2) == 1 and p.data_store is not None:
                    # an individual recorded early is synchronised once more (its row is replaced where it is): a later
                    # session still sees the individuals in the order in which they were recorded
                    order0 = [i.id for i in W.open_view(path).individuals]
                    early = p.individuals[D.dec('cfg', 'resync_which', max(1, len(p.individuals) // 2))]
                    with W.quiet():
                        p.data_store.sync_individual(early)
                    order1 = [i.id for i in W.open_view(path).individuals]
                    ctx.probe('resynchronised_before_readback')
                    ctx.check()
                    if order1 != order0:
                        ctx.violation('population', 'Results.population', 'after individual id %d was synchronised again a later '
                                      'session reads the individuals in the order %r..., they were recorded in the order %r...'
                                      % (early.id, order1[:10], order0[:10]))
                v = W.open_view(path)
            p = v
            # the view holds one individual per id: that is the recorded history it can be asked about
            ledger = [(i, i.population_id, list(i.vector), list(i.costs)) for i in v.individuals if i.costs]
            if any(not i.costs for i in v.individuals):
                # NSGA-II parent copies are recorded without being evaluated: Results.costs() cannot index them
                ledger = None
        else:
            ledger = [(i, i.population_id, list(i.vector), list(i.costs)) for i in p.individuals]
        if ledger and all(len(l[3]) == len(ledger[0][3]) and len(l[3]) > 0 for l in ledger):
            tags = [l[1] for l in ledger]
            try:
                with W.quiet():
                    check_queries(ctx, p, ledger, tags)
            except (kernel.Deadlock, kernel.StepCap):
                raise
            except Exception as e:
                if type(e).__name__ == 'HarnessError':
                    raise
                ctx.violation('unexpected_exception', 'Results', 'a query raised %r on the recorded history of a %s run' % (e, info.kind))
            if not ctx.violations:
                front = [l[3] for l in ledger if l[1] == max(tags)]
                check_indicators(ctx, D, front, 'run')
        ctx.sample['ledger'] = len(ledger) if ledger else 0
        ctx.sample['store_readback'] = use_store
    except (kernel.Deadlock, kernel.StepCap):
        raise
    finally:
        if path:
            w.problem.data_store = None
            W.remove_db(path)
    return runfam.finish(info, use_store)


def _direct(D):
    """generated recording: unsorted tags, duplicate values, maximised goals"""
    from artap.individual import Individual
    sim = W.begin_run(D)
    ctx = core.Ctx(PID, D, sim)
    ctx.probe('direct_family')
    w = W.World(D, sim, fail='none', precision=0, name='c17d')
    p = w.problem
    k = 1 + D.dec('work', 'k', 12)
    ledger = []
    grid = D.dec('work', 'grid', 2)
    for i in range(k):
        vec = W.gen_vector(w, D, 'work', ('v', i))
        if grid:
            vec = [q['bounds'][0] + (q['bounds'][1] - q['bounds'][0]) * round(4 * (x - q['bounds'][0]) / (q['bounds'][1] - q['bounds'][0])) / 4.0
                   for x, q in zip(vec, w.params)]
        # a design recorded once more with other costs (a noisy or robust objective, a re-evaluation in a later generation):
        # both records are recorded individuals, queries speak of all of them
        again = i > 0 and D.dec('work', ('again', i), 4) == 1
        if again:
            vec = list(ledger[D.dec('work', ('againof', i), i)][2])
            ctx.probe('same_vector_recorded_again_with_other_costs')
        ind = Individual(vec)
        ind.costs = w.f(vec)
        if grid:
            ind.costs = [float(round(c * 2) / 2.0) for c in ind.costs]
        if again:
            shift = (-0.375, 0.375, -2.0, 2.0)[D.dec('work', ('againshift', i), 4)]
            ind.costs = [float(c + shift) for c in ind.costs]
        ind.calc_signed_costs(w.signs)
        ind.state = ind.State.EVALUATED
        ind.population_id = D.dec('work', ('tag', i), 4)
        ind.features['front_number'] = 1
        p.individuals.append(ind)
        ledger.append((ind, ind.population_id, list(ind.vector), list(ind.costs)))
    tags = [l[1] for l in ledger]
    if tags != sorted(tags):
        ctx.probe('unsorted_tags')
    if len({tuple(l[3]) for l in ledger}) < len(ledger) or len({l[2][0] for l in ledger}) < len(ledger):
        ctx.probe('duplicate_values')
    try:
        with W.quiet():
            from artap.results import Results
            res = Results(p)
            check_queries(ctx, p, ledger, tags, res)
            # the history goes on (a second run on the same problem, more generations) and the SAME Results object is asked
            # again: a view must describe the recorded data as it is now, not as it was at the first query
            # ... or the recorded data change WITHOUT changing their number: a recorded individual gets another generation tag,
            # or the history is cleared and equally many other individuals are recorded
            mut = D.dec('work', 'samecount', 4)
            if mut and ledger and not ctx.violations:
                ctx.probe('changed_without_count_change')
                if mut == 1:
                    j = D.dec('work', 'retag_i', len(ledger))
                    ind = ledger[j][0]
                    ind.population_id = (ind.population_id + 1 + D.dec('work', 'retag_t', 3)) % 5
                    ledger[j] = (ind, ind.population_id, ledger[j][2], ledger[j][3])
                else:
                    n_old = len(ledger)
                    p.individuals.clear()
                    ledger.clear()
                    for i in range(n_old):
                        vec = W.gen_vector(w, D, 'work', ('v2', i))
                        ind = Individual(vec)
                        ind.costs = w.f(vec)
                        ind.calc_signed_costs(w.signs)
                        ind.state = ind.State.EVALUATED
                        ind.population_id = D.dec('work', ('tag2', i), 4)
                        ind.features['front_number'] = 1
                        p.individuals.append(ind)
                        ledger.append((ind, ind.population_id, list(ind.vector), list(ind.costs)))
                tags = [l[1] for l in ledger]
                check_queries(ctx, p, ledger, tags, res)
            k2 = D.dec('work', 'k2', 6)
            if k2 and not ctx.violations:
                ctx.probe('queried_again_after_more_recordings')
                for i in range(k, k + k2):
                    vec = W.gen_vector(w, D, 'work', ('v', i))
                    ind = Individual(vec)
                    ind.costs = w.f(vec)
                    ind.calc_signed_costs(w.signs)
                    ind.state = ind.State.EVALUATED
                    ind.population_id = D.dec('work', ('tag', i), 7)
                    ind.features['front_number'] = 1
                    p.individuals.append(ind)
                    ledger.append((ind, ind.population_id, list(ind.vector), list(ind.costs)))
                tags = [l[1] for l in ledger]
                check_queries(ctx, p, ledger, tags, res)
            if not ctx.violations:
                check_indicators(ctx, D, [l[3] for l in ledger], 'direct')
    except (kernel.Deadlock, kernel.StepCap):
        raise
    except Exception as e:
        if type(e).__name__ == 'HarnessError':
            raise
        ctx.violation('unexpected_exception', 'Results', 'a query raised %r on a legal recording' % (e,))
    ctx.sample = {'family': 'direct', 'individuals': k, 'tags': tags, 'n': w.n, 'm': w.m, 'signs': w.signs, 'grid': bool(grid)}
    ctx.sig('direct', k, tuple(tags), w.n, w.m, tuple(w.signs), grid, tuple(round(l[3][0], 9) for l in ledger[:3]))
    return core.result(ctx, sim)
