"""C08 – variation, sampling and search never leave the declared parameter box.

Run clause (core): every vector that reaches the objective in NSGA-II, eps-MOEA,
OMOPSO, SMPSO and PSOGA runs – including designs re-rolled after injected
failures – is inside the box.  Operator clauses (in-run): every call of SBX,
polynomial / uniform / non-uniform mutation and of the generators is judged on
its return value.  The PRNG seam injects the draws a seed almost never produces
(0.0, 1-2^-53, 1/2 +- ulp, end points of uniform) into searches that have driven
parents onto a bound or made them nearly coincident.  A direct `operators` family
calls the operators and the DoE generators on harness-built parents.
"""
import math

from .. import core, kernel, monitors, runfam, seams, world as W

PID = 'C08'
LEVEL = 'exploration'
RULE = ('one case = one complete run of NSGA-II / eps-MOEA / OMOPSO / SMPSO / PSOGA (N 2-10, G 1-5, n 1-5, box kind unit / '
        'negative / offset / mixed-sign / tiny 1e-6 / huge +-1e6 / per-parameter mix, optional coarse precision, failure '
        'plan, extreme-draw rate 0 / 2% / 20% / 50%), or one direct operator history (SBX, PM, uniform, non-uniform mutation, '
        'generators incl. Halton / uniform grid / full factorial / Plackett-Burman / Box-Behnken) on parents placed on '
        'bounds, coincident or one ulp apart.  Non-trivial = at least one evaluated vector or operator result was judged; '
        'distinct = hash of (configuration, number of calls, last evaluated vectors).')
ASSUMPTIONS = [
    'tolerance per coordinate: 1e-12 + 4 ulp(max(|lb|,|ub|)) for parameters without precision, plus half the declared precision otherwise',
    '|bound| <= 1e6, widths >= 1e-6',
    'operator clauses are judged on calls whose parents are inside the box (the run clause guarantees that in runs)',
    'LHS generator is used with a seeded RandomState proxy (doe.np seam)',
]
COMPONENTS = {
    'real': ['artap.operators SimulatedBinaryCrossover / PmMutator / UniformMutator / NonUniformMutation / generators',
             'artap.utils.VectorAndNumbers', 'artap.algorithm_swarm update_velocity/update_position/turbulence',
             'artap.algorithm_NSGAII / algorithm_genetic run loops', 'artap.job.Job re-roll', 'artap.doe builders'],
    'stub': ['user objective with failure plan', 'PRNG seam (seeded + extreme legal draws)', 'joblib', 'time.time', 'uuid1'],
}
PROBES_EXPECTED = ['evaluated_vectors', 'sbx_calls', 'pm_calls', 'um_calls', 'num_calls', 'generator_calls', 'prng_extreme',
                   'integer_typed_parents', 'on_lower_bound', 'on_upper_bound', 'reroll_checked', 'operators_family', 'coincident_parents',
                   'second_run_after_narrowing']


def run_one(D, opts=None):
    if D.weighted('cfg', 'family', (4, 1)) == 1:
        return _operators(D)
    return _run(D)


def _op_hooks(ctx, w, state):
    def chk(vec, site, what, parents_ok=True):
        ctx.check()
        bad = w.in_box(vec)
        if bad and parents_ok:
            cl = 'generator_out_of_box' if site.endswith('generate') else 'operator_out_of_box'
            if bad.startswith('dimension'):
                cl = 'dimension'
            elif 'is ' in bad and 'outside' not in bad:
                cl = 'not_real'
            ctx.violation(cl, site, '%s returned %r: %s' % (what, list(vec), bad))

    def inside(v):
        return w.in_box(v) is None

    def strictly_inside(v):
        return len(v) == w.n and all(p['bounds'][0] <= x <= p['bounds'][1] for x, p in zip(v, w.params))

    def call(orig, site, what, parents, *a, **k):
        # "for parents inside the box the operators return real-valued children": an exception is a broken promise
        try:
            return orig(*a, **k)
        except Exception as e:
            if all(strictly_inside(p) for p in parents) and type(e).__name__ not in ('Livelock', 'HarnessError'):
                ctx.violation('not_real', site, '%s raised %r for parents inside the box' % (what, e))
            raise

    def sbx(orig, self, p1, p2):
        ok = inside(p1) and inside(p2)
        if list(p1) == list(p2):
            ctx.probe('coincident_parents')
        r = call(orig, 'SimulatedBinaryCrossover.cross', 'cross(%r, %r)' % (list(p1), list(p2)), (p1, p2), self, p1, p2)
        ctx.probe('sbx_calls')
        chk(r[0], 'SimulatedBinaryCrossover.cross', 'cross(%r, %r)[0]' % (list(p1), list(p2)), ok)
        chk(r[1], 'SimulatedBinaryCrossover.cross', 'cross(%r, %r)[1]' % (list(p1), list(p2)), ok)
        return r

    def mut(name, site):
        def h(orig, self, parent, *a, **k):
            ok = inside(parent)
            r = call(orig, site, 'mutate(%r, %r)' % (list(parent), a), (parent,), self, parent, *a, **k)
            ctx.probe(name)
            chk(r, site, 'mutate(%r, %r)' % (list(parent), a), ok)
            return r
        return h

    def gen(orig, self):
        r = orig(self)
        ctx.probe('generator_calls')
        for v in r:
            chk(v, 'RandomGenerator.generate', 'generate()')
        return r

    return dict(sbx=sbx, pm=mut('pm_calls', 'PmMutator.mutate'), um=mut('um_calls', 'UniformMutator.mutate'),
                num=mut('num_calls', 'NonUniformMutation.mutate'), randgen=gen)


def _run(D):
    info = runfam.setup(D, PID, precision=None, p_exts=(0.0, 0.02, 0.2, 0.5), p_ext_weights=(2, 1, 2, 1),
                        fails=('none', 'light', 'heavy'), fail_weights=(3, 2, 1))
    ctx, w = info.ctx, info.w
    ctx.probe(info.kind)
    first_calls = 0
    if D.dec('cfg', 'second_run', 4) == 1:
        # a first study, then the user narrows the box in place and runs the SAME algorithm object again: operators that
        # were built earlier (SMPSO / PSOGA build their mutator in the constructor) must respect the box as it is now
        import contextlib
        fp, w.fail_p = w.fail_p, 0.0
        try:
            with W.quiet():
                info.alg.run()
        except (kernel.Deadlock, kernel.StepCap):
            raise
        except Exception:
            pass            # judged below by the ordinary rules on the second run
        w.fail_p = fp
        first_calls = len(w.calls)
        for wp_, pp_ in zip(w.params, w.problem.parameters):
            lb, ub = wp_['bounds']
            nb = [lb + 0.25 * (ub - lb), ub - 0.25 * (ub - lb)]
            wp_['bounds'] = list(nb)
            pp_['bounds'] = list(nb)
        ctx.probe('second_run_after_narrowing')
    monitors.set_hooks(**_op_hooks(ctx, w, None))
    runfam.execute(info)
    site = 'run of ' + info.kind
    runfam.judge_abort(info, site, clause=None)
    seen = {}
    for c in w.calls[first_calls:]:
        ctx.check()
        ctx.probe('evaluated_vectors')
        if c.attempt > 0:
            ctx.probe('reroll_checked')
        bad = w.in_box(c.vector)
        for i, p in enumerate(w.params):
            if i < len(c.vector):
                if c.vector[i] == p['bounds'][0]:
                    ctx.probe('on_lower_bound')
                elif c.vector[i] == p['bounds'][1]:
                    ctx.probe('on_upper_bound')
        if bad:
            cl = 'evaluated_out_of_box'
            if bad.startswith('dimension'):
                cl = 'dimension'
            elif 'outside' not in bad:
                cl = 'not_real'
            ctx.violation(cl, site, 'objective call %d (design id %d, attempt %d) received %r: %s'
                          % (c.no, c.ind_id, c.attempt, list(c.vector), bad))
            break
    return runfam.finish(info)


class _NPProxy:
    """numpy as artap.doe sees it, with a seeded RandomState (the LHS sampler asks for an unseeded one)"""

    def __init__(self, np, seed):
        self._np = np
        self.random = _RandomProxy(np, seed)

    def __getattr__(self, k):
        return getattr(self._np, k)


class _RandomProxy:
    def __init__(self, np, seed):
        self._np = np
        self._seed = seed

    def RandomState(self, *a):
        if a and a[0] is not None:
            return self._np.random.RandomState(*a)
        return self._np.random.RandomState(self._seed)

    def __getattr__(self, k):
        return getattr(self._np.random, k)


def _place(D, key, lb, ub):
    """a coordinate on a bound, next to a bound, or inside"""
    c = D.weighted('work', key + ('pl',), (3, 2, 2, 1, 1, 1))
    if c == 0:
        return lb + (ub - lb) * D.unit('work', key + ('u',))
    if c == 1:
        return lb
    if c == 2:
        return ub
    if c == 3:
        return math.nextafter(lb, ub)
    if c == 4:
        return math.nextafter(ub, lb)
    return 0.5 * (lb + ub)


def _operators(D):
    import numpy as np
    from artap import operators as ops
    import artap.doe as doe
    p_ext = (0.0, 0.1, 0.5)[D.weighted('cfg', 'pext', (1, 2, 2))]
    sim = W.begin_run(D, p_ext=p_ext)
    ctx = core.Ctx(PID, D, sim)
    ctx.probe('operators_family')
    w = W.World(D, sim, name='c08ops', ncons=0, m=1)
    hooks = _op_hooks(ctx, w, None)
    monitors.set_hooks(**hooks)
    params = w.problem.parameters
    nops = 1 + D.dec('cfg', 'nops', 12)
    kinds = []
    try:
        with W.quiet():
            for o in range(nops):
                kind = ('sbx', 'pm', 'um', 'num', 'gen')[D.weighted('work', ('op', o), (3, 2, 2, 2, 1))]
                kinds.append(kind)
                p1 = [_place(D, ('p1', o, i), *q['bounds']) for i, q in enumerate(params)]
                c = D.dec('work', ('rel', o), 4)
                if c == 0:
                    p2 = [_place(D, ('p2', o, i), *q['bounds']) for i, q in enumerate(params)]
                elif c == 1:
                    p2 = list(p1)
                elif c == 2:
                    p2 = [min(max(math.nextafter(x, math.inf), q['bounds'][0]), q['bounds'][1]) for x, q in zip(p1, params)]
                else:
                    p2 = [min(max(x + (q['bounds'][1] - q['bounds'][0]) * 1e-15, q['bounds'][0]), q['bounds'][1])
                          for x, q in zip(p1, params)]
                if D.dec('work', ('intp', o), 5) == 1:
                    # designs written with integer coordinates ([1, -2, 3] is a legal design) where the box contains them
                    ip1, ip2 = [int(round(x)) for x in p1], [int(round(x)) for x in p2]
                    if all(q['bounds'][0] <= v <= q['bounds'][1] for v, q in zip(ip1 + ip2, params + params)):
                        p1, p2 = ip1, ip2
                        ctx.probe('integer_typed_parents')
                prob = (1.0, 0.5, 0.0, 1.0 / w.n)[D.dec('work', ('prob', o), 4)]
                if kind == 'sbx':
                    di = (15, 0, 1, 20, 100)[D.dec('work', ('di', o), 5)]
                    ops.SimulatedBinaryCrossover(params, prob, di).cross(p1, p2)
                elif kind == 'pm':
                    di = (20, 0, 1, 100)[D.dec('work', ('di', o), 4)]
                    ops.PmMutator(params, prob, di).mutate(p1)
                elif kind == 'um':
                    ops.UniformMutator(params, prob, (0.5, 2.0, 1e6)[D.dec('work', ('pert', o), 3)]).mutate(p1)
                elif kind == 'num':
                    mx = 1 + D.dec('work', ('mx', o), 6)
                    it = D.dec('work', ('it', o), mx + 1)
                    ops.NonUniformMutation(params, prob, mx).mutate(p1, it)
                else:
                    gk = D.dec('work', ('gk', o), 7)
                    site = 'generate'
                    old_np = doe.np
                    try:
                        if gk == 0:
                            g = ops.RandomGenerator(params); g.init(1 + D.dec('work', ('gn', o), 6)); vs = None; g.generate()
                        else:
                            if gk == 1:
                                g = ops.UniformGenerator(params); g.init(2 + D.dec('work', ('gn', o), 3)); name = 'UniformGenerator'
                                if w.n > 3:
                                    continue
                            elif gk == 2:
                                g = ops.HaltonGenerator(params); g.init(1 + D.dec('work', ('gn', o), 9)); name = 'HaltonGenerator'
                            elif gk == 3:
                                g = ops.FullFactorGenerator(params); g.init(bool(D.dec('work', ('gc', o), 2))); name = 'FullFactorGenerator'
                            elif gk == 4:
                                g = ops.PlackettBurmanGenerator(params); name = 'PlackettBurmanGenerator'
                            elif gk == 5:
                                if w.n < 3:
                                    continue
                                g = ops.BoxBehnkenGenerator(params); name = 'BoxBehnkenGenerator'
                            else:
                                doe.np = _NPProxy(np, D.dec('sut', 'seed', 1 << 30) % (1 << 31))
                                g = ops.LHSGenerator(params); g.init(1 + D.dec('work', ('gn', o), 8)); name = 'LHSGenerator'
                            # the same generator is asked twice (a second study in the same process): state kept between
                            # calls - a cache, an array scaled in place - must not leak into the second design
                            for rep in (1, 2):
                                vs = g.generate()
                                ctx.probe('generator_calls')
                                for v in vs:
                                    ctx.check()
                                    v = [float(x) for x in v]
                                    bad = w.in_box(v)
                                    if bad:
                                        ctx.violation('generator_out_of_box', name + '.generate', 'call %d, design %r: %s' % (rep, v, bad))
                                        break
                                if ctx.violations:
                                    break
                    finally:
                        doe.np = old_np
                if ctx.violations:
                    break
    except (kernel.Deadlock, kernel.StepCap):
        raise
    except Exception as e:
        if type(e).__name__ == 'HarnessError':
            raise
        ctx.violation('unexpected_exception', kinds[-1] if kinds else '?', 'operator %s raised %r on parents inside the box'
                      % (kinds[-1] if kinds else '?', e))
    finally:
        monitors.clear()
    if seams.RNG.extremes:
        ctx.probe('prng_extreme', seams.RNG.extremes)
        sim.stats['prng_extreme'] = seams.RNG.extremes
    ctx.sample = {'family': 'operators', 'ops': kinds, 'n': w.n, 'box': w.boxkind, 'p_ext': p_ext,
                  'precision': ['precision' in q for q in params], 'prng_draws': seams.RNG.draws}
    ctx.sig('ops', tuple(kinds), w.n, w.boxkind, p_ext, seams.RNG.draws, seams.RNG.extremes)
    return core.result(ctx, sim)
