"""C03 – environmental selection is elitist: rank first, then crowding, no duplicates (in-run invariant).

Order-free oracles on every nondominated_truncate, crowding_distance and
TournamentSelector.select call the real optimisers make; the PRNG seam tells the
oracle which two candidates the tournament drew.
"""
import math

from .. import core, monitors, refmodels as R, runfam, seams, world as W

PID = 'C03'
LEVEL = 'exploration'
RULE = ('one case = one complete run of NSGA-II / eps-MOEA / OMOPSO / SMPSO / PSOGA (N 2-10, G 1-5, m 1-4, smooth or tie-heavy '
        'objectives, constraints, failure plans, extreme draws) with oracles after every truncate (length, no design twice, '
        'rank order, crowding order on the cut front), every crowding_distance (small fronts, extremes, exact interior '
        'formula without ties, the weaker bounds with ties) and every tournament (member, not the worse front, not the '
        'dominated one).  Non-trivial = at least one of these calls was judged; distinct = hash of (configuration, calls, '
        'last vectors).')
ASSUMPTIONS = [
    'in-run invariant only: "all ranked populations" is covered on the pools that arise in runs',
    'fronts in which two individuals share one features dict are skipped and counted (probe aliased_features; none since PSOGA was repaired, F5)',
    'crowding interior formula compared to 1e-12 relative',
    '"distinct designs" = designs with non-identical coordinate vectors',
]
COMPONENTS = {
    'real': ['artap.operators.nondominated_truncate / nondominated_cmp / crowding_distance / TournamentSelector.select',
             'Individual.__eq__ / __hash__ (set de-duplication)', 'the five run loops'],
    'stub': ['user objective', 'PRNG seam (also reports the tournament draw)', 'joblib', 'time.time', 'uuid1'],
}
PROBES_EXPECTED = ['same_design_other_class', 'near_equal_crowding', 'moved_onto_another_design', 'truncate_other_k', 'truncate_k_ge_len', 'truncate_calls', 'truncate_cut_inside_front', 'truncate_with_duplicates', 'crowding_calls', 'crowding_small_front',
                   'crowding_exact_formula', 'crowding_with_ties', 'crowding_zero_range', 'tournament_calls',
                   'tournament_front_decides', 'tournament_dominance_decides', 'tournament_random']


def _same(a, b):
    # "the same design" = identical coordinates: that is what set-based de-duplication (hash + ==) can identify;
    # two designs 1e-11 apart are different designs and may both survive
    return list(a.vector) == list(b.vector)


def hooks(ctx, w, D):
    st = {'t': 0}

    def truncate(orig, population, size):
        pool = list(population)
        res = orig(population, size)
        ctx.probe('truncate_calls')
        st['t'] += 1
        if judge_truncate(pool, size, res) and st['t'] <= 40:
            # the optimisers always cut 2N -> N; the property quantifies over all k >= 1, so the same ranked pool is truncated
            # again (the function is pure) to 1, to its own length, beyond its length and to a seeded size
            n = len(pool)
            for k in sorted({1, n, n + 3, 1 + D.dec('work', ('tk', st['t']), n + 2)} - {size}):
                ctx.probe('truncate_other_k')
                if k >= n:
                    ctx.probe('truncate_k_ge_len')
                if not judge_truncate(pool, k, orig(list(pool), k)):
                    break
            if n >= 3 and st['t'] <= 12 and not ctx.violations:
                # the same ranked pool with crowding distances that differ only in the 8th decimal (regularly spaced fronts,
                # costs that differ beyond the 7th decimal): different is different, the larger one is kept
                from artap.individual import Individual
                saved = Individual.counter
                clones = []
                for i, p in enumerate(pool):
                    c = p.__class__(list(p.vector))
                    c.features['front_number'] = p.features['front_number']
                    c.features['crowding_distance'] = 0.4 + 2.5e-8 * D.dec('work', ('ncd', st['t'], i), 4 * n)
                    clones.append(c)
                Individual.counter = saved
                ctx.probe('near_equal_crowding')
                for k in sorted({1, max(1, n // 2), n - 1}):
                    if not judge_truncate(clones, k, orig(list(clones), k)):
                        break
                if not ctx.violations:
                    # a member that took part in a truncation and was then moved onto another member's design (swarm moves,
                    # re-rolled designs): the next truncation sees one design twice and returns it once
                    clones[0].vector = list(clones[1].vector)
                    ctx.probe('moved_onto_another_design')
                    if judge_truncate(clones, n, orig(list(clones), n)):
                        # ... and the same design once more as a plain Individual (a design read back from a store next to the
                        # run's own design class): still one design
                        saved = Individual.counter
                        twin = Individual(list(clones[1].vector))
                        Individual.counter = saved
                        twin.features['front_number'] = clones[1].features['front_number']
                        twin.features['crowding_distance'] = clones[1].features['crowding_distance']
                        ctx.probe('same_design_other_class')
                        judge_truncate(clones + [twin], n + 1, orig(clones + [twin], n + 1))
        return res

    def judge_truncate(pool, size, res):
        site = 'nondominated_truncate'
        ctx.check()
        distinct = []
        for p in pool:
            if not any(_same(p, q) for q in distinct):
                distinct.append(p)
        if len(distinct) < len(pool):
            ctx.probe('truncate_with_duplicates')
        exp_len = min(size, len(distinct))
        if len(res) != exp_len:
            ctx.violation('trunc_len', site, 'truncate(pool of %d with %d distinct designs, %d) returned %d individuals, expected %d'
                          % (len(pool), len(distinct), size, len(res), exp_len))
            return False
        for a in range(len(res)):
            if not any(res[a] is p for p in pool):
                ctx.violation('trunc_len', site, 'returned an individual that is not in the pool')
                return False
            for b in range(a + 1, len(res)):
                if _same(res[a], res[b]):
                    ctx.violation('trunc_dup', site, 'design %r returned twice' % (list(res[a].vector),))
                    return False
        discarded = [p for p in distinct if not any(_same(p, r) for r in res)]
        if not discarded or not res:
            return True
        worst_kept = max(r.features['front_number'] for r in res)
        best_disc = min(d.features['front_number'] for d in discarded)
        if worst_kept > best_disc:
            ctx.violation('trunc_rank_order', site, 'kept an individual of front %d while a design of front %d was discarded'
                          % (worst_kept, best_disc))
            return False
        if len(distinct) == len(pool) and worst_kept == best_disc:
            ctx.probe('truncate_cut_inside_front')
            kept_cd = [r.features['crowding_distance'] for r in res if r.features['front_number'] == worst_kept]
            disc_cd = [d.features['crowding_distance'] for d in discarded if d.features['front_number'] == worst_kept]
            if kept_cd and disc_cd and min(kept_cd) < max(disc_cd):
                ctx.violation('trunc_crowding_order', site, 'on the cut front %d a member with crowding distance %r was kept while one '
                              'with %r was discarded' % (worst_kept, min(kept_cd), max(disc_cd)))
                return False
        return True

    def crowding(orig, front):
        members = list(front)
        r = orig(front)
        site = 'crowding_distance'
        n = len(members)
        if n == 0:
            return r
        ctx.probe('crowding_calls')
        if len({id(i.features) for i in members}) < n:
            ctx.probe('aliased_features')
            return r
        ctx.check()
        cd = [i.features['crowding_distance'] for i in members]
        costs = [list(i.costs_signed) for i in members]
        m = len(costs[0]) - 1
        if n <= 2:
            ctx.probe('crowding_small_front')
            if not all(c == math.inf for c in cd):
                ctx.violation('crowd_small_front', site, 'front of %d members has distances %r' % (n, cd))
            return r
        for d in range(m):
            vals = [c[d] for c in costs]
            if max(vals) == min(vals):
                ctx.probe('crowding_zero_range')
        if not R.has_ties(costs):
            ctx.probe('crowding_exact_formula')
            exp = R.crowding(costs)
            for k in range(n):
                e, g = exp[k], cd[k]
                if math.isinf(e) != math.isinf(g):
                    ctx.violation('crowd_extreme_inf', site, 'member %d (signed costs %r): distance %r, expected %r' % (k, costs[k], g, e))
                    return r
                if not math.isinf(e) and abs(e - g) > 1e-12 * max(1.0, abs(e)):
                    ctx.violation('crowd_interior_formula', site, 'member %d (signed costs %r): distance %r, formula gives %r'
                                  % (k, costs[k], g, e))
                    return r
        else:
            ctx.probe('crowding_with_ties')
            for k in range(n):
                g = cd[k]
                if isinstance(g, complex) or g != g or g < 0 or (not math.isinf(g) and g > m + 1e-9):
                    ctx.violation('crowd_tie_bounds', site, 'member %d: distance %r outside [0, %d] and not inf' % (k, g, m))
                    return r
            for d in range(m):
                vals = [c[d] for c in costs]
                lo, hi = min(vals), max(vals)
                if not any(math.isinf(cd[k]) for k in range(n) if vals[k] == lo) or \
                        not any(math.isinf(cd[k]) for k in range(n) if vals[k] == hi):
                    ctx.violation('crowd_tie_bounds', site, 'objective %d: no holder of its minimum/maximum has an infinite distance' % d)
                    return r
        return r

    def tournament(orig, self, individuals):
        seams.RNG.last_sample = None
        r = orig(self, individuals)
        site = 'TournamentSelector.select'
        ctx.check()
        ctx.probe('tournament_calls')
        if not any(r is i for i in individuals):
            ctx.violation('tournament_member', site, 'returned an individual that is not a member of the population')
            return r
        cand = seams.RNG.last_sample
        if len(individuals) >= 2 and cand and len(cand) == 2 and all(any(c is i for i in individuals) for c in cand):
            a, b = cand
            fa, fb = a.features.get('front_number'), b.features.get('front_number')
            if not any(r is c for c in cand):
                ctx.violation('tournament_member', site, 'returned an individual that is neither of the two drawn candidates')
                return r
            other = b if r is a else a
            if fa != fb:
                ctx.probe('tournament_front_decides')
                if r.features['front_number'] > other.features['front_number']:
                    ctx.violation('tournament_worse_front', site, 'candidates with fronts %r and %r: the worse one was returned' % (fa, fb))
            else:
                d = R.dominates(other.costs_signed, r.costs_signed)
                if d == 1:
                    ctx.violation('tournament_dominated', site, 'at equal front %r the dominated candidate %r was returned over %r'
                                  % (fa, list(r.costs_signed), list(other.costs_signed)))
                elif R.dominates(r.costs_signed, other.costs_signed) == 1:
                    ctx.probe('tournament_dominance_decides')
                else:
                    ctx.probe('tournament_random')
        return r

    return dict(truncate=truncate, crowding=crowding, tournament=tournament)


def run_one(D, opts=None):
    info = runfam.setup(D, PID, precision=0, fails=('none', 'light'), fail_weights=(4, 1), p_exts=(0.0, 0.05, 0.3),
                        p_ext_weights=(3, 1, 1), max_N=10)
    ctx = info.ctx
    ctx.probe(info.kind)
    monitors.set_hooks(**hooks(ctx, info.w, D))
    runfam.execute(info)
    runfam.judge_abort(info, 'run of ' + info.kind, clause=None)
    return runfam.finish(info)
