"""C01 – constrained Pareto dominance is the textbook strict partial order (in-run invariant).

A pure function of its arguments: simulation cannot decide "for all pairs".  What is
claimed is the weaker statement that it held on every comparator call the real
optimisers made in every explored run (all five population algorithms, m = 1..4,
maximised objectives, mixed feasibility), plus antisymmetry by re-calling the
unwrapped comparator with swapped arguments and transitivity on sampled triples of
every sorted pool.
"""
from .. import core, monitors, refmodels as R, runfam, world as W

PID = 'C01'
LEVEL = 'exploration'
RULE = ('one case = one complete run of NSGA-II / eps-MOEA / OMOPSO / SMPSO / PSOGA with wrappers on ParetoDominance.compare and '
        'EpsilonDominance.compare: every call is compared with the textbook constrained-dominance verdict, re-called with '
        'swapped arguments (antisymmetry) and with identical arguments (irreflexivity / eps tie-break); up to 60 triples '
        'per sorted pool are sampled for transitivity.  Non-trivial = at least one comparator call was judged; distinct = '
        'hash of (configuration, calls, last vectors).  Pairs derived from run pools (a coordinate tied, the marker flipped or '
        'replaced by a violation degree of either sign, a coordinate negated) are fed to the Pareto comparator as well.  '
        'NOT covered: m > 4.')
ASSUMPTIONS = [
    'in-run invariant only: the quantifier "all pairs and triples" is covered on the arguments that arise in runs',
    'eps comparator: equality with the textbook verdict is demanded when every differing coordinate differs by more than 1e-9 relative',
    'textbook verdict: better marker first (0 = feasible, else smaller |marker|), then component-wise comparison of signed costs',
]
COMPONENTS = {
    'real': ['artap.operators.ParetoDominance.compare', 'artap.operators.EpsilonDominance.compare', 'all callers inside the five algorithms'],
    'stub': ['user objective', 'PRNG seam', 'joblib', 'time.time', 'uuid1'],
}
PROBES_EXPECTED = ['pareto_calls', 'eps_calls', 'm1', 'm2', 'm3', 'm4', 'mixed_markers', 'identical_vectors', 'coordinate_tie',
                   'maximised_objective', 'transitivity_triples', 'verdict_0', 'verdict_1', 'verdict_2', 'derived_pairs', 'signed_zero_tie']


def hooks(ctx, w, D):
    state = {'n': 0}

    def common(p, q):
        m = len(p) - 1
        if 1 <= m <= 4:
            ctx.probe('m%d' % m)
        if p[-1] != q[-1]:
            ctx.probe('mixed_markers')
        if list(p) == list(q):
            ctx.probe('identical_vectors')
        elif any(a == b for a, b in zip(p[:-1], q[:-1])):
            ctx.probe('coordinate_tie')

    def pareto(orig, self, p, q):
        r = orig(self, p, q)
        ctx.check()
        ctx.probe('pareto_calls')
        common(p, q)
        exp = R.dominates(p, q)
        ctx.probe('verdict_%d' % exp)
        site = 'ParetoDominance.compare'
        if r != exp:
            ctx.violation('pareto_verdict', site, 'compare(%r, %r) = %r, textbook verdict %r' % (list(p), list(q), r, exp))
            return r
        back = orig(self, q, p)
        if back != {0: 0, 1: 2, 2: 1}[r]:
            ctx.violation('antisymmetry', site, 'compare(p, q) = %r but compare(q, p) = %r for p=%r q=%r' % (r, back, list(p), list(q)))
        if orig(self, p, p) != 0:
            ctx.violation('irreflexive', site, 'compare(p, p) = %r for p=%r' % (orig(self, p, p), list(p)))
        return r

    def eps(orig, self, p, q):
        r = orig(self, p, q)
        ctx.check()
        ctx.probe('eps_calls')
        common(p, q)
        site = 'EpsilonDominance.compare'
        exp = R.dominates(p, q)
        identical = list(p[:-1]) == list(q[:-1]) and R.mrank(p[-1]) == R.mrank(q[-1])
        if identical:
            if r == 0:
                ctx.violation('eps_identical_names_loser', site, 'compare(p, p) = 0 for p=%r: a duplicate would enter the archive'
                              % (list(p),))
            return r
        clear = all(a == b or abs(a - b) > 1e-9 * max(1.0, abs(a), abs(b)) for a, b in zip(p[:-1], q[:-1]))
        same_obj = False
        if clear and not same_obj and r != exp:
            ctx.violation('eps_verdict', site, 'compare(%r, %r) = %r (epsilons %r), textbook verdict %r'
                          % (list(p), list(q), r, self.epsilons, exp))
            return r
        if clear and not same_obj:
            back = orig(self, q, p)
            if back != {0: 0, 1: 2, 2: 1}[r]:
                ctx.violation('antisymmetry', site, 'eps compare(p, q) = %r but compare(q, p) = %r for p=%r q=%r'
                              % (r, back, list(p), list(q)))
        return r

    def derived(comp, pool, key):
        """the comparators are pure: re-invoke them on pairs derived from run-produced vectors - one coordinate tied, the
        marker flipped or replaced by a violation degree of either sign, a coordinate negated - so that argument classes the
        optimisers happen not to produce (markers are only False/True in runs) are judged too"""
        cmp_ = monitors.ORIG['pareto_compare']
        n = len(pool)
        for t in range(min(12, n * n)):
            a = list(pool[D.dec('work', ('dv', key, t, 0), n)])
            b = list(pool[D.dec('work', ('dv', key, t, 1), n)])
            k = D.dec('work', ('dv', key, t, 2), 7)
            m = len(a) - 1
            j = D.dec('work', ('dv', key, t, 3), m)
            if k == 0:
                b[j] = a[j]
            elif k == 1:
                b[-1] = not bool(a[-1])
            elif k == 2:
                a[-1], b[-1] = (-0.3, 0.5, 0.2, 0.0)[D.dec('work', ('dv', key, t, 4), 4)], (0.1, -0.7, 0.0, 0.2)[D.dec('work', ('dv', key, t, 5), 4)]
            elif k == 3:
                b = list(a)
            elif k == 4:
                a[j], b[j] = -a[j], -b[j]
            elif k == 6:
                # an exact tie at zero with different signs of zero (a maximised objective equal to 0, or -1e-9 rounded to
                # seven decimals, gives -0.0): still a tie
                a[j], b[j] = ((-0.0, 0.0), (0.0, -0.0))[D.dec('work', ('dv', key, t, 4), 2)]
                ctx.probe('signed_zero_tie')
            ctx.probe('derived_pairs')
            exp = R.dominates(a, b)
            # a long-lived epsilon comparator that was first used for a problem with fewer objectives (the default comparator
            # of Archive() is shared by every archive of the process) must judge this pair like a fresh one
            if 'eps' not in state:
                from artap.operators import EpsilonDominance
                state['eps'] = EpsilonDominance(epsilons=[0.1, 0.1])
                monitors.ORIG['eps_compare'](state['eps'], [0.25, False], [0.5, False])
            clear = all(x == y or abs(x - y) > 1e-9 * max(1.0, abs(x), abs(y)) for x, y in zip(a[:-1], b[:-1]))
            if clear and not (list(a[:-1]) == list(b[:-1]) and R.mrank(a[-1]) == R.mrank(b[-1])):
                ge = monitors.ORIG['eps_compare'](state['eps'], a, b)
                if ge != exp:
                    ctx.violation('eps_verdict', 'EpsilonDominance.compare', 'a comparator with epsilons [0.1, 0.1] that had been used '
                                  'for a one-objective pair before returns %r for compare(%r, %r), textbook verdict %r' % (ge, a, b, exp))
                    return
            got = cmp_(comp, a, b)
            if got != exp:
                ctx.violation('pareto_verdict', 'ParetoDominance.compare', 'compare(%r, %r) = %r, textbook verdict %r (pair derived from a run pool)'
                              % (a, b, got, exp))
                return
            if cmp_(comp, b, a) != {0: 0, 1: 2, 2: 1}[got]:
                ctx.violation('antisymmetry', 'ParetoDominance.compare', 'compare(p, q) = %r but compare(q, p) = %r for p=%r q=%r'
                              % (got, cmp_(comp, b, a), a, b))
                return

    def sorting(orig, self, individuals):
        r = orig(self, individuals)
        pool = [i.costs_signed for i in individuals]
        n = len(pool)
        if n >= 2 and state['n'] < 30 and not ctx.violations:
            derived(self.comparator, pool, state['n'])
        if n >= 3:
            state['n'] += 1
            cmp_ = monitors.ORIG['pareto_compare']
            comp = self.comparator
            for t in range(min(60, n * n)):
                a = D.dec('work', ('tri', state['n'], t, 0), n)
                b = D.dec('work', ('tri', state['n'], t, 1), n)
                c = D.dec('work', ('tri', state['n'], t, 2), n)
                if len({a, b, c}) < 3:
                    continue
                ctx.probe('transitivity_triples')
                if cmp_(comp, pool[a], pool[b]) == 1 and cmp_(comp, pool[b], pool[c]) == 1 and cmp_(comp, pool[a], pool[c]) != 1:
                    ctx.violation('transitivity', 'ParetoDominance.compare', 'a>b, b>c but not a>c for a=%r b=%r c=%r'
                                  % (list(pool[a]), list(pool[b]), list(pool[c])))
                    break
        return r

    return dict(pareto_compare=pareto, eps_compare=eps, sorting=sorting)


def run_one(D, opts=None):
    info = runfam.setup(D, PID, precision=0, max_N=8, max_G=4, fails=('none', 'light'), fail_weights=(4, 1),
                        p_exts=(0.0, 0.05), p_ext_weights=(3, 1))
    ctx, w = info.ctx, info.w
    if -1 in w.signs:
        ctx.probe('maximised_objective')
    monitors.set_hooks(**hooks(ctx, w, D))
    runfam.execute(info)
    runfam.judge_abort(info, 'run of ' + info.kind, clause=None)
    return runfam.finish(info)
