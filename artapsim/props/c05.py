"""C05 – each design is evaluated exactly once and stored costs belong to its vector.

Families: `batch` (generated operation sequences on an Algorithm with the default
evaluator: fresh batches, mixed batches, the same batch again, evaluate_scalar;
serial and 2–3 simulated workers), `sweep` (SweepAlgorithm over custom / random /
uniform / Halton generators) and `scalar` (real SciPy / NLopt optimisers driving
the scalar bridge).  Oracle: shadow model fed from the objective's own call log.
"""
import math

from .. import core, kernel, world as W
from ..decisions import Decisions

PID = 'C05'
LEVEL = 'exploration'
RULE = ('one case = one generated history: a world (n, m, min/max signs, 0-2 constraints, box) and either 1-6 batch '
        'operations (fresh / mixed / repeated batch / evaluate_scalar, 1-8 designs each, 1-3 workers under a seeded '
        'schedule), a sweep over one of four generators, or a SciPy/NLopt run through the scalar bridge.  Non-trivial = '
        'at least one design went through every clause of the shadow-model oracle; distinct = distinct hash of '
        '(family, configuration, operation kinds, schedule signatures, rounded first costs).')
ASSUMPTIONS = [
    'objective failures off (C06 covers them); default evaluator only (the worst-case evaluator appends an objective by design)',
    'states other than EMPTY / EVALUATED are not generated',
    'the objective is a deterministic function owned by the harness, recomputed by the oracle',
    'signed-cost rounding checked as |s - sign*c| <= 0.5e-7 and s on the 1e-7 grid (default precision feature 7)',
    'for |cost| > 1e12 (divergent unbounded SciPy searches) only sign and magnitude of the signed cost are compared',
    'LHS generator not used in sweeps (its RandomState is unseeded and no listed clause of C05 needs it)',
]
COMPONENTS = {
    'real': ['artap.algorithm.Algorithm.evaluate/evaluate_scalar', 'artap.operators.Evaluator', 'artap.job.Job',
             'artap.individual.Individual.calc_signed_costs', 'artap.algorithm_sweep.SweepAlgorithm',
             'artap.operators generators (Custom/Random/Uniform/Halton)', 'artap.algorithm_scipy.ScipyOpt + scipy.optimize.minimize',
             'artap.algorithm_nlopt.NLopt + nlopt'],
    'stub': ['joblib.Parallel (SimParallel)', 'user objective/constraints (harness world)', 'time.time', 'uuid1'],
}
PROBES_EXPECTED = ['maximised_objective', 'constraint_pairs', 'reeval_same_batch', 'mixed_batch', 'scalar_points',
                   'sweep_parallel', 'parallel_batches', 'store_attached', 'foreign_lock', 'reloaded_session', 'inside_process_backend_context']


class Shadow:
    def __init__(self, ctx, w):
        self.ctx = ctx
        self.w = w
        self.seen_calls = 0
        self.calls_of = {}      # id(obj) -> count
        self.loaded = set()     # id(obj) of evaluated designs read back from a store in a later session
        self.sat = []           # markers of designs satisfying all constraints
        self.vio = []

    def absorb(self):
        new = self.w.calls[self.seen_calls:]
        self.seen_calls = len(self.w.calls)
        for c in new:
            self.calls_of[c.obj] = self.calls_of.get(c.obj, 0) + 1
        return new

    def check_design(self, ind, site, what):
        ctx, w = self.ctx, self.w
        ctx.check()
        n = self.calls_of.get(id(ind), 0)
        was_loaded = id(ind) in self.loaded
        if n != (0 if was_loaded else 1):
            ctx.violation('recall_on_evaluated' if was_loaded else 'call_count', site,
                          '%s (id %d): objective called %d times since %s' % (what, ind.id, n, 'it was read back evaluated '
                          'from the store' if was_loaded else 'creation'))
            return
        if ind.state != ind.State.EVALUATED and not (was_loaded and ind.state == 'evaluated'):
            ctx.violation('state', site, '%s (id %d): state %s after evaluation' % (what, ind.id, ind.state))
            return
        exp = w.f(ind.vector)
        if list(ind.costs) != exp:
            ctx.violation('costs_ne_f', site, '%s (id %d): vector %r has costs %r but the objective returns %r for it'
                          % (what, ind.id, list(ind.vector), list(ind.costs), exp))
            return
        cs = list(ind.costs_signed)
        if len(cs) != w.m + 1:
            ctx.violation('signed_costs', site, '%s: signed costs %r have %d entries, expected %d + marker'
                          % (what, cs, len(cs), w.m))
            return
        for j in range(w.m):
            s = float(cs[j])
            e = w.signs[j] * exp[j]
            if w.signs[j] < 0:
                ctx.probe('maximised_objective')
            if abs(e) > 1e12:
                # numpy's decimal rounding scales by 1e7 first; beyond ~1e300 that overflows and below it the
                # 1e-7 grid is finer than one ulp - only the sign is meaningful there
                ctx.probe('huge_cost_sign_only')
                if not (abs(s - e) <= 8 * math.ulp(e) or math.isinf(s)) or (s > 0) != (e > 0):
                    ctx.violation('signed_costs', site, '%s: signed cost %d is %r, objective value %r, sign %d'
                                  % (what, j, s, exp[j], w.signs[j]))
                    return
                continue
            off_grid = abs(s) < 1e6 and abs(s * 1e7 - round(s * 1e7)) > 1e-3 + abs(s) * 1e-7
            if abs(s - e) > 0.5e-7 * (1 + 1e-6) + 1e-13 + 2 * math.ulp(e) or off_grid:
                ctx.violation('signed_costs', site, '%s: signed cost %d is %r, objective value %r, sign %d'
                              % (what, j, s, exp[j], w.signs[j]))
                return
        if w.ncons:
            mk = cs[-1]
            rank = 0.0 if mk == 0 else abs(float(mk))
            if w.feasible(ind.vector):
                self.sat.append(rank)
                bad = [r for r in self.vio if not rank < r]
            else:
                self.vio.append(rank)
                bad = [r for r in self.sat if not r < rank]
            if self.sat and self.vio:
                ctx.probe('constraint_pairs')
            if bad:
                ctx.violation('marker_order', site, '%s: constraints %r, marker %r does not rank satisfying designs ahead '
                              'of violating ones' % (what, w.g(ind.vector), mk))


def run_one(D, opts=None):
    fam = D.weighted('cfg', 'family', (5, 2, 2))
    if fam == 0:
        return _batch(D)
    if fam == 1:
        return _sweep(D)
    return _scalar(D)


def _batch(D):
    from artap.individual import Individual
    sim = W.begin_run(D)
    ctx = core.Ctx(PID, D, sim)
    workers = 1 + D.weighted('cfg', 'workers', (2, 2, 1))
    w = W.World(D, sim, fail='none', name='c05')
    db = None
    if D.dec('cfg', 'store', 4) == 1:
        # a store is attached; in serial histories another process may hold the database lock while a freshly evaluated
        # design is written - the write must be retried, never the (hour-long) evaluation
        db = W.fresh_db('c05')
        W.attach_store(w, db)
        ctx.probe('store_attached')
    alg = W.dummy_algorithm(w, workers=workers)
    sh = Shadow(ctx, w)
    nops = 1 + D.size('cfg', 'nops', 6)
    known = []
    held = []       # keeps read-back designs alive: the shadow model is keyed by object identity
    kinds = []
    site = 'Algorithm.evaluate'
    for o in range(nops):
        if db and known and D.flag('work', ('reload', o), 0.3):
            # a later session continues the study: a new Problem on the same file (mode "write" loads the stored designs);
            # designs read back evaluated are evaluated designs - batches that contain them must not recompute them
            loaded = W.reopen_session(w, db)
            alg = W.dummy_algorithm(w, workers=workers)
            sh.loaded.update(id(i) for i in loaded)
            held.append(loaded)
            known = [loaded] if loaded else []
            ctx.probe('reloaded_session')
            sim.ev('reload', o, len(loaded))
        kind = ('fresh', 'mixed', 'again', 'scalar')[D.weighted('work', ('op', o), (3, 2, 2, 1))]
        if kind in ('mixed', 'again') and not known:
            kind = 'fresh'
        kinds.append(kind)
        sim.ev('op', o, kind)
        if kind == 'scalar':
            x = W.gen_vector(w, D, 'work', ('sx', o))
            n0 = len(w.problem.individuals)
            with W.quiet():
                try:
                    ret = alg.evaluator.evaluate_scalar(x)
                except (kernel.Deadlock, kernel.StepCap, kernel.Livelock):
                    raise
                except Exception as e:
                    if type(e).__name__ == 'HarnessError':
                        raise
                    ctx.violation('unexpected_exception', 'Evaluator.evaluate_scalar', 'evaluate_scalar(%r) raised %r although the '
                                  'objective never failed' % (list(x), e))
                    break
            sh.absorb()
            _check_scalar(ctx, sh, w, x, ret, n0)
            continue
        if kind == 'again':
            batch = list(known[-1])
        else:
            nd = 1 + D.dec('work', ('nd', o), 8)
            batch = [Individual(W.gen_vector(w, D, 'work', ('v', o, i))) for i in range(nd)]
            if kind == 'mixed':
                old = known[D.dec('work', ('old', o), len(known))]
                k = 1 + D.dec('work', ('nold', o), len(old))
                pos = D.dec('work', ('pos', o), len(batch) + 1)
                batch = batch[:pos] + old[:k] + batch[pos:]
                ctx.probe('mixed_batch')
        before = {id(i): sh.calls_of.get(id(i), 0) for i in batch}
        if db and workers == 1 and D.flag('fault', ('foreign_lock', o), 0.3):
            from .. import seams
            seams.take_foreign_lock(sim, db, (3.0, 12.0, 31.0, 70.0)[D.dec('fault', ('foreign_hold', o), 4)])
            ctx.probe('foreign_lock')
        from .. import seams as _seams
        # the caller may itself sit inside `with joblib.parallel_backend('loky')` (user code that uses joblib elsewhere):
        # the library's workers must still share the designs with the caller
        outer = _seams.backend_context('loky' if (workers > 1 and D.dec('fault', ('outer_backend', o), 4) == 1) else None)
        if outer.name:
            ctx.probe('inside_process_backend_context')
        with W.quiet(), outer:
            try:
                alg.evaluate(batch)
            except (kernel.Deadlock, kernel.StepCap):
                raise
            except Exception as e:
                ctx.violation('unexpected_exception', site, 'evaluate raised %r on a legal batch' % (e,))
                break
        if db and sim.foreign_lock is not None:
            from .. import seams
            seams.release_foreign_lock(sim)       # the foreign holder never outlives the operation it disturbed
        new = sh.absorb()
        for i, ind in enumerate(batch):
            was_evaluated = before[id(ind)] > 0 or id(ind) in sh.loaded
            if was_evaluated and sh.calls_of.get(id(ind), 0) != before[id(ind)]:
                ctx.violation('recall_on_evaluated', site, 'operation %d (%s): already evaluated design id %d was sent '
                              'to the objective again' % (o, kind, ind.id))
            sh.check_design(ind, site, 'operation %d (%s) design %d' % (o, kind, i))
        ids = {id(i) for i in batch}
        stray = [c for c in new if c.obj not in ids]
        if stray:
            ctx.violation('call_count', site, 'operation %d: %d objective calls for objects outside the batch (vector %r)'
                          % (o, len(stray), stray[0].vector))
        if kind == 'again':
            ctx.probe('reeval_same_batch')
            if new:
                ctx.violation('recall_on_evaluated', site, 'operation %d: evaluating the same batch again made %d objective calls'
                              % (o, len(new)))
        known.append(batch)
        if ctx.violations:
            break
    if db:
        from .. import seams
        seams.release_foreign_lock(sim)
        w.problem.data_store = None
        W.remove_db(db)
    ctx.sample = {'family': 'batch', 'store': bool(db), 'workers': workers, 'ops': kinds, 'n': w.n, 'm': w.m, 'signs': w.signs,
                  'ncons': w.ncons, 'box': w.boxkind, 'policy': sim.policy}
    ctx.sig('batch', workers, tuple(kinds), w.n, w.m, tuple(w.signs), w.ncons,
            tuple(round(c.vector[0], 6) for c in w.calls[:3]))
    return core.result(ctx, sim)


def _check_scalar(ctx, sh, w, x, ret, n0):
    site = 'Evaluator.evaluate_scalar'
    inds = w.problem.individuals
    ctx.check()
    ctx.probe('scalar_points')
    if len(inds) != n0 + 1:
        ctx.violation('scalar_recorded', site, 'a queried point added %d individuals to problem.individuals' % (len(inds) - n0))
        return None
    ind = inds[-1]
    if [float(v) for v in ind.vector] != [float(v) for v in x]:
        ctx.violation('scalar_recorded', site, 'queried %r but recorded %r' % (list(x), list(ind.vector)))
        return ind
    sh.check_design(ind, site, 'scalar point %r' % ([float(v) for v in x],))
    if ctx.violations:
        return ind
    if float(ret) != float(ind.costs_signed[0]):
        ctx.violation('scalar_return', site, 'optimiser received %r for a point whose signed cost is %r (cost %r, sign %d)'
                      % (ret, ind.costs_signed[0], ind.costs[0], w.signs[0]))
    return ind


def _sweep(D):
    from artap.algorithm_sweep import SweepAlgorithm
    from artap import operators as ops
    sim = W.begin_run(D)
    ctx = core.Ctx(PID, D, sim)
    workers = 1 + D.weighted('cfg', 'workers', (2, 2, 1))
    gk = ('custom', 'random', 'uniform', 'halton')[D.dec('cfg', 'generator', 4)]
    w = W.World(D, sim, fail='none', n=(1 + D.dec('cfg', 'n', 3)) if gk == 'uniform' else None, name='c05')
    p = w.problem
    if gk == 'custom':
        gen = ops.CustomGenerator(p.parameters)
        gen.init([W.gen_vector(w, D, 'work', ('cv', i)) for i in range(1 + D.dec('work', 'ncv', 8))])
    elif gk == 'random':
        gen = ops.RandomGenerator(p.parameters)
        gen.init(1 + D.dec('work', 'nrv', 8))
    elif gk == 'uniform':
        gen = ops.UniformGenerator(p.parameters)
        gen.init(2 + D.dec('work', 'nuv', 2))
    else:
        gen = ops.HaltonGenerator(p.parameters)
        gen.init(1 + D.dec('work', 'nhv', 8))
    # an independent enumeration of the generator's designs: same generator state, same PRNG state
    import copy as _copy
    from .. import seams
    state = seams.RNG.r.getstate()
    draws = seams.RNG.draws
    expected = [[float(c) for c in v] for v in _copy.deepcopy(gen).generate()]
    seams.RNG.r.setstate(state)
    seams.RNG.draws = draws
    with W.quiet():
        alg = SweepAlgorithm(p, generator=gen)
    alg.options['max_processes'] = workers
    site = 'SweepAlgorithm.run'
    with W.quiet():
        try:
            alg.run()
        except (kernel.Deadlock, kernel.StepCap):
            raise
        except Exception as e:
            ctx.violation('unexpected_exception', site, 'sweep raised %r' % (e,))
    if not ctx.violations:
        sh = Shadow(ctx, w)
        sh.absorb()
        got = [[float(c) for c in c_.vector] for c_ in w.calls]
        rec = [[float(c) for c in i.vector] for i in p.individuals]
        if workers == 1:
            if got != expected:
                ctx.violation('sweep_order', site, 'objective saw %r, generator produced %r' % (got[:4], expected[:4]))
        else:
            ctx.probe('sweep_parallel')
            if sorted(got) != sorted(expected):
                ctx.violation('sweep_order', site, 'objective saw a different multiset of designs than the generator produced '
                              '(%d vs %d)' % (len(got), len(expected)))
        if rec != expected:
            ctx.violation('sweep_order', site, 'recorded designs %r differ from the generator\'s %r' % (rec[:4], expected[:4]))
        for i, ind in enumerate(p.individuals):
            sh.check_design(ind, site, 'sweep design %d' % i)
    ctx.sample = {'family': 'sweep', 'generator': gk, 'designs': len(expected), 'workers': workers, 'n': w.n, 'm': w.m,
                  'signs': w.signs, 'ncons': w.ncons, 'box': w.boxkind}
    ctx.sig('sweep', gk, len(expected), workers, w.n, w.m, tuple(w.signs), w.ncons,
            tuple(round(v[0], 6) for v in expected[:3]))
    return core.result(ctx, sim)


def _scalar(D):
    sim = W.begin_run(D)
    ctx = core.Ctx(PID, D, sim)
    lib = ('scipy', 'nlopt')[D.dec('cfg', 'lib', 2)]
    box = D.pick('cfg', 'box', ('unit', 'negative', 'offset', 'mixedsign'))
    w = W.World(D, sim, fail='none', box=box, ncons=0, precision=0, name='c05')
    p = w.problem
    with W.quiet():
        if lib == 'scipy':
            from artap.algorithm_scipy import ScipyOpt
            alg = ScipyOpt(p)
            method = D.pick('cfg', 'method', ('Nelder-Mead', 'Powell', 'COBYLA', 'BFGS'))
            alg.options['algorithm'] = method
            if method in ('Nelder-Mead', 'Powell') and D.dec('cfg', 'bounded', 2) == 0:
                alg.options['bounds'] = [tuple(q['bounds']) for q in w.params]
        else:
            import artap.algorithm_nlopt as an
            alg = an.NLopt(p)
            method = D.pick('cfg', 'method', ('LN_BOBYQA', 'LN_NELDERMEAD', 'LN_COBYLA', 'LN_SBPLX', 'GN_DIRECT_L'))
            alg.options['algorithm'] = getattr(an, method)
    alg.options['n_iterations'] = 3 + D.dec('cfg', 'iters', 12)
    alg.options['verbose_level'] = 0
    real = alg.evaluator.evaluate_scalar
    trace = []
    sh = Shadow(ctx, w)

    def spy(x, *a):
        n0 = len(p.individuals)
        q = [float(v) for v in x]
        try:
            r = real(x, *a)
        except (kernel.Deadlock, kernel.StepCap):
            raise
        except Exception as e:
            ctx.violation('unexpected_exception', site, 'evaluate_scalar(%r) raised %r' % (q, e))
            raise
        sh.absorb()
        if not ctx.violations:
            _check_scalar(ctx, sh, w, q, r, n0)
        trace.append((q, float(r)))
        return r

    alg.evaluator.evaluate_scalar = spy
    site = 'Evaluator.evaluate_scalar'
    with W.quiet():
        try:
            alg.run()
        except (kernel.Deadlock, kernel.StepCap):
            raise
        except Exception as e:
            # raised by the optimiser library itself (e.g. nlopt.RoundoffLimited on a step-shaped objective):
            # not a statement of C05; every point queried so far has been judged by the spy
            ctx.probe('optimizer_stopped_with_exception')
    if not ctx.violations:
        if len(p.individuals) != len(trace) or len(w.calls) != len(trace):
            ctx.violation('scalar_recorded', site, '%d points queried, %d recorded, %d objective calls'
                          % (len(trace), len(p.individuals), len(w.calls)))
    ctx.sample = {'family': 'scalar', 'library': lib, 'method': method, 'points': len(trace), 'n': w.n, 'm': w.m,
                  'signs': w.signs, 'box': w.boxkind, 'first_points': trace[:2]}
    ctx.sig('scalar', lib, method, len(trace), w.n, w.m, tuple(w.signs), tuple(round(t[1], 6) for t in trace[:3]))
    return core.result(ctx, sim)
