"""C11 – a crash at any moment leaves the SQLite store readable and consistent.

A trace is a seeded workload (direct store history, evaluated batch, or a small
NSGA-II / eps-MOEA / OMOPSO / Sweep run; serial or 2–3 simulated workers) against
a thread-safe SqliteDataStore.  For every crash point of a trace the workload is
re-executed in a forked child that really dies (`_exit`, no handlers) – at the
k-th Python-level event, or, through an LD_PRELOAD shim, at entry of the k-th
file-mutating call on the store's directory (optionally after a torn write).  A
second, fresh child then opens the surviving directory with a read-mode view and
judges it against the acknowledgements the dead child had written to a pipe.
"""
import ctypes
import hashlib
import json
import os
import shutil
import sys
import time
import traceback

from .. import core, kernel, seams, world as W
from ..decisions import Decisions, derive_seed

PID = 'C11'
LEVEL = 'fault_enumeration'
RULE = ('fault space of one trace = its crash points: every Python-level event after the store constructor returned '
        '(objective entry/exit, connect, before every SQL statement, before/after every commit, return of every '
        'sync call) and every file-mutating libc call on the store directory (pwrite/write/unlink/ftruncate/rename/'
        'creating open), plus torn variants of page-crossing writes in the thorough tier.  T is measured by an '
        'un-armed child (twice: must agree).  Each point = one forked child that really dies + one fresh checker '
        'child.  Traces listed under exhaustive_traces had all their points enumerated; the others a stride.  '
        'Non-trivial = the child actually died at the armed point (exit 137) and the surviving directory was judged; '
        'distinct = distinct (trace, kind, k).')
ASSUMPTIONS = [
    'crash = process death (what C11 states): completed write-class calls survive in the page cache; power loss and '
    'disk errors are not injected (artap sets synchronous=0)',
    'between two file-mutating calls the durable state does not change, so dying at entry of call k+1 covers every '
    'instant after call k together with the largest set of acknowledgements that can coexist with it',
    'the child is single-baton, so its call sequence is a function of the seed (checked: T equal across repetitions)',
    'default evaluator, default thread-safe store; the shim is armed only after the SqliteDataStore constructor returned',
    'PRAGMA integrity_check is recorded as a diagnostic only; the statement speaks of the read-mode view',
    'in serial traces a simulated foreign process may hold the database exclusively for 3-31 virtual seconds across one '
    'synchronisation (fault kind foreign_lock, the lock is real, the waiting is virtual): the retry path of the store runs '
    'before the crash',
]
COMPONENTS = {
    'real': ['whole artap stack in the dying child: algorithm, Evaluator, Job, SqliteDataStore, python sqlite3, libsqlite3, '
             'real files on tmpfs, real process death, real hot-journal recovery in the checker child',
             'artap.problem.ProblemViewDataStore in the checker'],
    'stub': ['joblib (SimParallel)', 'user objective (harness world)', 'time.time', 'uuid1'],
}

SHIM = None


def shim():
    global SHIM
    if SHIM is None:
        try:
            lib = ctypes.CDLL(None)
            lib.verif_shim_present.restype = ctypes.c_int
            lib.verif_shim_arm.argtypes = [ctypes.c_char_p, ctypes.c_long, ctypes.c_int]
            lib.verif_shim_count.restype = ctypes.c_long
            lib.verif_shim_kind.restype = ctypes.c_long
            lib.verif_shim_kind.argtypes = [ctypes.c_int]
            SHIM = lib if lib.verif_shim_present() == 1 else False
        except Exception:
            SHIM = False
    return SHIM


KINDS = ('none', 'event', 'syscall', 'torn')
FAMILIES = ('store', 'batch', 'nsga2', 'epsmoea', 'omopso', 'sweep')


# ------------------------------------------------------------------ the dying child
def _digest(ind):
    return hashlib.sha1(json.dumps(ind.to_dict()).encode()).hexdigest()[:16]


def _scenario(D, ackfd, kind, k, workdir):
    """runs in the forked child; never returns normally (the caller _exits)"""
    from artap.datastore import SqliteDataStore
    from artap.individual import Individual
    sim = W.begin_run(D)
    fam = D.pick('cfg', 'cfamily', FAMILIES)
    workers = 1 + D.weighted('cfg', 'cworkers', (2, 1, 1))
    w = W.World(D, sim, fail=('none', 'light')[D.weighted('cfg', 'cfail', (3, 1))], name='c11',
                n=1 + D.dec('cfg', 'n', 3), m=1 + D.dec('cfg', 'm', 2), precision=0)
    path = os.path.join(workdir, 'db.sqlite')
    store = W.attach_store(w, path)

    def send(*rec):
        os.write(ackfd, (json.dumps(rec) + '\n').encode())

    send('meta', fam, workers, w.n, w.m, w.centres, w.boxkind, [p['bounds'] for p in w.params], w.quantised)
    depth = {}          # per simulated task: a retry after OperationalError re-enters sync_individual
    osi = SqliteDataStore.sync_individual
    osa = SqliteDataStore.sync_all

    nsync = [0]

    def si(self, ind):
        me = sim.cur
        outer = depth.get(me, 0) == 0
        depth[me] = depth.get(me, 0) + 1
        locked = False
        if outer:
            d = _digest(ind)
            send('s', ind.id, d)
            nsync[0] += 1
            if workers == 1 and D.flag('fault', ('cforeign', nsync[0]), 0.12):
                # fault kind foreign_lock (serial traces): another process (a viewer, a backup) holds the database exclusively
                # for 3 / 12 / 31 virtual seconds across this synchronisation - longer than the busy time-out in two cases of
                # three, so the store's own retry path runs; a synchronisation that returns must still have written its row
                hold = (3.0, 12.0, 31.0)[D.dec('fault', ('cforeign_hold', nsync[0]), 3)]
                seams.take_foreign_lock(sim, path, hold)
                locked = True
                send('fl', hold)
        try:
            r = osi(self, ind)
        finally:
            depth[me] -= 1
            if locked and sim.foreign_lock is not None:
                seams.release_foreign_lock(sim)     # the foreign holder never outlives the operation it disturbed
        if outer:
            send('a', ind.id, d)
            sim.crash_point('sync_return')
        return r

    def sa(self):
        ds = [[i.id, _digest(i)] for i in self.problem.individuals]
        for j in range(0, len(ds), 40):
            send('S', ds[j:j + 40])
        r = osa(self)
        for j in range(0, len(ds), 40):
            send('A', ds[j:j + 40])
        sim.crash_point('sync_return')
        return r

    SqliteDataStore.sync_individual = si
    SqliteDataStore.sync_all = sa
    nevt = [0]

    def on_event(kind_):
        nevt[0] += 1
        if kind == 1 and nevt[0] == k:
            os._exit(137)

    sim.on_event = on_event
    lib = shim()
    if lib:
        lib.verif_shim_arm(workdir.encode(), k if kind in (2, 3) else -1, 1 if kind == 3 else 0)
    elif kind in (2, 3):
        os._exit(5)
    # ---- workload
    with W.quiet():
        try:
            if fam == 'store':
                nthreads = workers
                per = 1 + D.dec('cfg', 'cper', 4)
                plans = []
                for t in range(nthreads):
                    mine = []
                    for i in range(per):
                        ind = Individual(W.gen_vector(w, D, 'work', ('sv', t, i)))
                        ind.costs = w.f(ind.vector)
                        ind.calc_signed_costs(w.signs)
                        ind.state = ind.State.EVALUATED
                        w.problem.individuals.append(ind)
                        mine.append(ind)
                    plans.append(mine)

                def make(mine, t):
                    def fn():
                        for j, ind in enumerate(mine):
                            ind.population_id = 1
                            store.sync_individual(ind)
                            if j == 0 and D.dec('cfg', ('ctwice', t), 2):
                                ind.population_id = 2
                                ind.custom = {'again': j}
                                store.sync_individual(ind)
                    return fn
                if nthreads == 1:
                    make(plans[0], 0)()
                else:
                    sim.run_workers([make(m_, t) for t, m_ in enumerate(plans)])
                if D.dec('cfg', 'csyncall', 2):
                    store.sync_all()
            elif fam == 'batch':
                alg = W.dummy_algorithm(w, workers=workers)
                for b in range(1 + D.dec('cfg', 'cnb', 2)):
                    batch = [Individual(W.gen_vector(w, D, 'work', ('v', b, i))) for i in range(2 + D.dec('cfg', ('cnd', b), 4))]
                    for ind in batch:
                        w.problem.individuals.append(ind)
                    alg.evaluate(batch)
                store.sync_all()
            elif fam == 'sweep':
                from artap.algorithm_sweep import SweepAlgorithm
                from artap import operators as ops
                gen = ops.RandomGenerator(w.problem.parameters)
                gen.init(2 + D.dec('cfg', 'cN', 4))
                alg = SweepAlgorithm(w.problem, generator=gen)
                alg.options['max_processes'] = workers
                alg.run()
            else:
                alg = W.make_algorithm(fam, w, 2 + D.dec('cfg', 'cN', 4), 1 + D.dec('cfg', 'cG', 2), workers=workers)
                alg.run()
        except RuntimeError as e:
            if 'To many failures' not in str(e):
                raise
            send('abort', str(e))
    send('T', lib.verif_shim_count() if lib else -1, nevt[0],
         [lib.verif_shim_kind(i) for i in range(6)] if lib else [])


def _read_all(fd):
    data = b''
    while True:
        b = os.read(fd, 1 << 16)
        if not b:
            break
        data += b
    os.close(fd)
    return data


def _spawn(fn):
    """fork; child runs fn(write_fd) and _exits; returns (exit status, bytes written)"""
    sys.stdout.flush()
    sys.stderr.flush()
    r, wfd = os.pipe()
    pid = os.fork()
    if pid == 0:
        code = 0
        try:
            os.close(r)
            fn(wfd)
        except BaseException:
            try:
                os.write(wfd, (json.dumps(['EXC', traceback.format_exc()[-3000:]]) + '\n').encode())
            except Exception:
                pass
            code = 3
        os._exit(code)
    os.close(wfd)
    data = _read_all(r)
    _, st = os.waitpid(pid, 0)
    code = os.WEXITSTATUS(st) if os.WIFEXITED(st) else 128 + os.WTERMSIG(st)
    return code, data


# ------------------------------------------------------------------ the checker child
def _f_of(meta, x):
    import math
    fam, workers, n, m, centres, boxkind, bounds, quant = meta
    u = [(x[i] - bounds[i][0]) / (bounds[i][1] - bounds[i][0]) for i in range(n)]
    out = []
    for j in range(m):
        s = 0.0
        for i in range(n):
            d = u[i] - centres[j][i]
            s += (1 + ((i + 2 * j) % 3)) * d * d
        s = s + 0.125 * j
        if quant:
            s = math.floor(s * 8.0) / 8.0
        out.append(float(s))
    return out


def _judge_dir(workdir, recs, wfd):
    """fresh process: open the surviving directory with a read-mode view and judge it"""
    import sqlite3
    seams.set_sim(None)
    meta = None
    last_ack = {}
    started = {}
    for rec in recs:
        t = rec[0]
        if t == 'meta':
            meta = rec[1:]
        elif t == 's':
            started.setdefault(rec[1], []).append(rec[2])
        elif t == 'a':
            last_ack[rec[1]] = rec[2]
            started[rec[1]] = []
        elif t == 'S':
            for i, d in rec[1]:
                started.setdefault(i, []).append(d)
        elif t == 'A':
            for i, d in rec[1]:
                last_ack[i] = d
                started[i] = []
    viol = []
    path = os.path.join(workdir, 'db.sqlite')
    try:
        v = W.open_view(path)
        inds = list(v.individuals)
    except BaseException as e:
        os.write(wfd, json.dumps({'violations': [['view_unreadable', 'read-mode view failed: %r' % (e,)]], 'rows': 0}).encode())
        return
    rows = {}
    raw = {}
    try:
        c = sqlite3.connect(path)
        for i, js in c.execute('select id, individual from individuals').fetchall():
            if i in raw:
                viol.append(['row_duplicate', 'id %r stored twice' % (i,)])
            raw[i] = js
        integ = c.execute('PRAGMA integrity_check').fetchall()
        c.close()
    except BaseException as e:
        viol.append(['view_unreadable', 'raw read failed: %r' % (e,)])
        integ = None
    for r in inds:
        rows[r.id] = r
    for i, d in last_ack.items():
        if i not in raw:
            viol.append(['acked_missing', 'individual id %d was acknowledged (digest %s) but has no row' % (i, d)])
            continue
        got = hashlib.sha1(raw[i].encode()).hexdigest()[:16]
        if got != d and got not in started.get(i, []):
            viol.append(['acked_stale', 'individual id %d: row digest %s is neither the acknowledged version %s nor a '
                         'version whose synchronisation started later %r' % (i, got, d, started.get(i, []))])
    keys = ('id', 'vector', 'costs', 'costs_signed', 'state', 'population_id', 'algorithm_id', 'custom', 'features')
    for i, js in raw.items():
        try:
            dct = json.loads(js)
        except Exception as e:
            viol.append(['row_partial', 'row id %r does not parse: %r' % (i, e)])
            continue
        miss = [k_ for k_ in keys if k_ not in dct]
        if miss:
            viol.append(['row_partial', 'row id %r lacks %r' % (i, miss)])
            continue
        if i not in last_ack and hashlib.sha1(js.encode()).hexdigest()[:16] not in started.get(i, []):
            viol.append(['row_inconsistent', 'row id %r holds a version that was never handed to the store' % (i,)])
        if dct['costs'] and meta is not None:
            exp = _f_of(meta, dct['vector'])
            if dct['costs'][:len(exp)] != exp:
                viol.append(['row_inconsistent', 'row id %r: costs %r do not belong to vector %r (objective gives %r)'
                             % (i, dct['costs'], dct['vector'], exp)])
        if dct['state'] == 'evaluated' and not dct['costs']:
            viol.append(['row_inconsistent', 'row id %r is marked evaluated without costs' % (i,)])
    os.write(wfd, json.dumps({'violations': viol[:6], 'rows': len(raw), 'acked': len(last_ack),
                              'integrity': (integ[0][0] if integ else None)}).encode())


# ------------------------------------------------------------------ one crash point
_pt = [0]


def run_point(D, kind, k):
    """execute trace D with one armed trigger; returns a result record (core.result-like)"""
    seams.install()
    _pt[0] += 1
    workdir = os.path.join(seams.scratch_dir(), 'c11-%d' % _pt[0])
    shutil.rmtree(workdir, ignore_errors=True)
    os.makedirs(workdir)
    ctx = core.Ctx(PID, D, None)
    try:
        code, data = _spawn(lambda fd: _scenario(Decisions(D.seed, D.ov), fd, kind, k, workdir))
        recs = []
        for line in data.decode().splitlines():
            try:
                recs.append(json.loads(line))
            except Exception:
                pass
        exc = [r for r in recs if r and r[0] == 'EXC']
        T = next((r for r in recs if r and r[0] == 'T'), None)
        meta = next((r for r in recs if r and r[0] == 'meta'), None)
        stats = {}
        if code == 5:
            raise seams.HarnessError('syscall-level crash point requested but the shim is not loaded')
        if exc or code not in (0, 137):
            # the scenario itself raised in the child: with no crash armed that is the SUT failing on a legal workload
            ctx.violation('unexpected_exception', 'child', 'workload raised in the child (exit %d): %s'
                          % (code, exc[0][1][-500:] if exc else '?'))
        died = code == 137
        if died:
            stats['crash_' + KINDS[kind]] = 1
            stats['crash'] = 1
        nfl = sum(1 for r in recs if r and r[0] == 'fl')
        if nfl:
            stats['foreign_lock'] = nfl
            if any(r[1] > 5.0 for r in recs if r and r[0] == 'fl'):
                ctx.probe('foreign_lock_outlasting_busy_timeout')
        code2, out = _spawn(lambda fd: _judge_dir(workdir, recs, fd))
        try:
            verdict = json.loads(out.decode())
        except Exception:
            verdict = {'violations': [['view_unreadable', 'checker child died (exit %d): %r' % (code2, out[-300:])]], 'rows': 0}
        for cl, text in verdict['violations']:
            ctx.violation(cl, 'SqliteDataStore', '[%s k=%d%s] %s' % (KINDS[kind], k, '' if died or kind == 0 else ' (not reached)', text))
        if died or kind == 0:
            ctx.check()
        if verdict.get('integrity') not in (None, 'ok'):
            ctx.probe('integrity_check_not_ok')
        ctx.probe('rows_seen', verdict.get('rows', 0))
        ctx.probe('acks_seen', verdict.get('acked', 0))
        ctx.sample = {'family': meta[1] if meta else None, 'workers': meta[2] if meta else None, 'kind': KINDS[kind], 'k': k,
                      'died': died, 'T_sys': T[1] if T else None, 'T_evt': T[2] if T else None,
                      'syscall_kinds[pwrite,write,unlink,ftruncate,rename,create]': T[3] if T else None,
                      'rows': verdict.get('rows'), 'acked': verdict.get('acked'), 'integrity': verdict.get('integrity')}
        ctx.sig(D.seed, tuple(sorted(D.ov.items())), kind, k)
        h = hashlib.sha256(repr([r for r in recs if r and r[0] != 'EXC']).encode()).hexdigest()[:20]
        return {
            'outcome': 'violation' if ctx.violations else 'ok', 'violations': ctx.violations, 'digest': h,
            'sig': hashlib.sha1(repr(ctx.sigparts).encode()).hexdigest()[:16], 'sched_sigs': [],
            'nontrivial': ctx.checks > 0, 'checks': ctx.checks, 'stats': stats, 'probes': ctx.probes, 'vtime': 0.0,
            'taken': dict(_taken_for(D, kind, k)) if ctx.violations else {}, 'ndec': 0, 'sample': ctx.sample,
            'tail': [r for r in recs if r and r[0] in ('s', 'a', 'abort', 'T')][-30:], 'head': None, 'seed': D.seed,
            'T': (T[1], T[2]) if T else None,
        }
    finally:
        shutil.rmtree(workdir, ignore_errors=True)


def _taken_for(D, kind, k):
    """the decision list that replays this point: the trace's non-zero decisions + the crash trigger.
    The trace runs in a child, so its `taken` is recomputed here by a dry in-process enumeration of cfg keys."""
    ov = dict(D.ov)
    if D.seed is not None:
        ov.update(_trace_decisions(D))
    ov["crash/'kind'"] = kind
    ov["crash/'k'"] = k
    return ov


_trace_cache = {}


def _trace_decisions(D):
    """non-zero decisions of the trace with this seed (obtained from one un-armed child run)"""
    key = (D.seed, tuple(sorted(D.ov.items())))
    if key not in _trace_cache:
        def fn(fd):
            D2 = Decisions(D.seed, D.ov)
            devnull = os.open(os.devnull, os.O_WRONLY)
            wd = os.path.join(seams.scratch_dir(), 'c11-dry-%d' % os.getpid())
            shutil.rmtree(wd, ignore_errors=True)
            os.makedirs(wd)
            try:
                _scenario(D2, devnull, 0, 0, wd)
            finally:
                shutil.rmtree(wd, ignore_errors=True)
            os.write(fd, json.dumps(D2.taken).encode())
        code, out = _spawn(fn)
        _trace_cache[key] = json.loads(out.decode()) if code == 0 and out else {}
        if len(_trace_cache) > 64:
            _trace_cache.pop(next(iter(_trace_cache)))
    return _trace_cache[key]


def run_one(D, opts=None):
    kind = D.dec('crash', 'kind', 4)
    k = D.dec('crash', 'k', 1 << 24)
    if kind in (2, 3) and not shim():
        raise seams.HarnessError('replay needs the syscall shim: run through ./check (LD_PRELOAD)')
    return run_point(D, kind, k)


# ------------------------------------------------------------------ enumeration driver
def _measure(seed):
    """un-armed run, twice: T must agree; the uncrashed directory must satisfy the oracle too"""
    seams.install()
    a = run_point(Decisions(seed), 0, 0)
    b = run_point(Decisions(seed), 0, 0)
    return seed, a, b


def _points(seed, kind, ks):
    seams.install()
    out = []
    for k in ks:
        r = run_point(Decisions(seed), kind, k)
        r['label'] = '%x/%s/%d' % (seed, KINDS[kind], k)
        out.append(r)
    return out


def drive(tier, verif_seed, procs, budget_s):
    import concurrent.futures as cf
    import multiprocessing
    from .. import driver
    t0 = time.time()
    have_shim = bool(shim())
    findings = driver.load_findings()
    agg = driver.Agg()
    ctxmp = multiprocessing.get_context('fork')
    ntraces = 24 if tier == 'quick' else 400
    exhaustive = []
    partial = []
    unknown = []
    errors = []
    trace_info = {}
    lines = []
    exit_code = 0
    guard_msg = None
    with cf.ProcessPoolExecutor(max_workers=procs, mp_context=ctxmp, initializer=driver._init_worker) as pool:
        seeds = [derive_seed(verif_seed, PID, i) for i in range(ntraces)]
        # phase 1: measure traces (also the determinism guard: T and ack stream equal across two executions)
        futs = {pool.submit(_measure, s): s for s in seeds[:min(ntraces, procs * 3 if tier == 'quick' else ntraces)]}
        measured = []
        for fut in cf.as_completed(futs):
            try:
                seed, a, b = fut.result()
            except Exception:
                errors.append(traceback.format_exc())
                continue
            if a['digest'] != b['digest'] or a.get('T') != b.get('T'):
                errors.append('nondeterministic trace %x: T %r vs %r' % (seed, a.get('T'), b.get('T')))
                continue
            agg.add(a)
            if a['outcome'] == 'violation':
                unknown.append((a, a['violations']))
            elif a.get('T'):
                measured.append((seed, a['T'], a['sample']))
        guard_msg = '%d traces executed twice un-armed in forked children: ack streams and T_sys/T_evt equal' % len(measured)
        measured.sort(key=lambda x: seeds.index(x[0]))
        # phase 2: enumerate crash points trace by trace (the budget is charged from here)
        deadline = time.time() + budget_s
        pending = {}
        kinds = [1] + ([2] if have_shim else []) + ([3] if (have_shim and tier == 'thorough') else [])
        work = []
        for seed, (tsys, tevt), smp in measured:
            trace_info[seed] = {'T_sys': tsys, 'T_evt': tevt, 'family': smp.get('family'), 'workers': smp.get('workers'),
                                'done': 0, 'total': 0}
            for kind in kinds:
                tmax = tevt if kind == 1 else tsys
                ks = list(range(1, (tmax or 0) + 2))
                trace_info[seed]['total'] += len(ks)
                for j in range(0, len(ks), 12):
                    work.append((seed, kind, ks[j:j + 12]))
        wi = 0
        stop = False
        while (wi < len(work) or pending) and not errors:
            while wi < len(work) and len(pending) < procs * 2 and not stop and time.time() < deadline:
                seed, kind, ks = work[wi]
                wi += 1
                pending[pool.submit(_points, seed, kind, ks)] = (seed, len(ks))
            if not pending:
                break
            done, _ = cf.wait(list(pending), timeout=5.0, return_when=cf.FIRST_COMPLETED)
            for fut in done:
                seed, n = pending.pop(fut)
                try:
                    res = fut.result()
                except Exception:
                    errors.append(traceback.format_exc())
                    continue
                trace_info[seed]['done'] += n
                for r in res:
                    agg.add(r)
                    if r['outcome'] == 'violation':
                        new = []
                        for v in r['violations']:
                            f = driver.match_finding(findings, PID, v)
                            if f is not None:
                                agg.known[(f['clause'], f.get('site', ''), f['what'])] += 1
                            else:
                                new.append(v)
                        if new:
                            unknown.append((r, new))
                            stop = True
        for seed, info in trace_info.items():
            (exhaustive if info['done'] >= info['total'] and info['total'] else partial).append(
                dict(info, trace_seed=seed))
        if errors:
            print('HARNESS-ERROR (no verdict):\n' + errors[0])
            exit_code = 2
        for (clause, site, what), cnt in sorted(agg.known.items()):
            lines.append('KNOWN-FINDING: property=%s %s [clause=%s site=%s runs=%d]' % (PID, what, clause, site, cnt))
        if unknown and exit_code == 0:
            exit_code, more = driver.report_violation(PID, pool, unknown, 4, (120, 200.0))
            lines.extend(more)
    wall = time.time() - t0
    if agg.stats.get('crash', 0) == 0 and exit_code == 0:
        print('HARNESS-ERROR no crash point was executed within the budget (no verdict)')
        return 2
    mod = sys.modules[__name__]
    extra = {
        'syscall_level': have_shim,
        'crash_points': {'event': agg.stats.get('crash_event', 0), 'syscall': agg.stats.get('crash_syscall', 0),
                         'torn_write': agg.stats.get('crash_torn', 0)},
        'traces_measured': len(trace_info),
        'exhaustive_traces': exhaustive[:60],
        'exhaustive_trace_count': len(exhaustive),
        'partially_enumerated_traces': partial[:20],
        'exhaustive': False,
    }
    driver.write_evidence(PID, mod, tier, verif_seed, agg, wall, guard_msg, len(unknown), [], sum(
        i['total'] for i in trace_info.values()), not partial, procs, extra)
    for ln in lines:
        print(ln)
    if exit_code == 0:
        print('OK property=%s tier=%s crash_points=%d (event %d, syscall %d, torn %d) traces=%d exhaustive_traces=%d '
              'shim=%s wall=%.1fs' % (PID, tier, agg.stats.get('crash', 0), agg.stats.get('crash_event', 0),
                                      agg.stats.get('crash_syscall', 0), agg.stats.get('crash_torn', 0),
                                      len(trace_info), len(exhaustive), have_shim, wall))
    return exit_code
