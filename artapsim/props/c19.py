"""C19 – surrogate wrapper returns true values unless predicting; exact accounting.

`surrogate` family: generated request histories against SurrogateModelPredict (a
minimal subclass with a logging train(), or SurrogateModelScikit with a stub
regressor) and SurrogateModelEval; the problem's predict hook accepts or declines
per request (fault kinds hook_accept / hook_decline).  `batch` / `run` families:
the requests come from real Job.evaluate calls.  Reference model: counters,
training lists, trained flag, and the evaluation counts at which train() ran.
"""
from .. import core, kernel, runfam, world as W

PID = 'C19'
LEVEL = 'exploration'
RULE = ('one case = one request history: 1-40 evaluation requests against one surrogate object (pass-through / predicting with a '
        'logging train() / SurrogateModelScikit with a stub regressor), train_step in {-1,1,2,3,5,10}, initially trained or not, '
        'predict hook present or absent, hook decision per request from the fault stream; or the request sequence that a batch '
        'algorithm / NSGA-II / swarm run produces through Job.evaluate.  After every request: returned value, objective calls, '
        'both counters, training lists, train() schedule, and that the hook was not consulted while untrained.  Non-trivial = '
        'at least one request judged; distinct = hash of (surrogate kind, train_step, hook decisions, history length).')
ASSUMPTIONS = [
    'requests are sequential, except in the parallel family where 2-3 simulated workers issue them with pre-emption at '
    'objective-call granularity and only schedule-independent accounting is judged (statement-level counter races are O3)',
    'regressors are stubbed (fit / score / predict): the property is about accounting, not about the quality of predictions',
]
COMPONENTS = {
    'real': ['artap.surrogate.SurrogateModelPredict.evaluate / evaluate_individual', 'artap.surrogate.SurrogateModelEval',
             'artap.surrogate_scikit.SurrogateModelScikit.train', 'artap.job.Job (batch / run family)'],
    'stub': ['regressor (StubRegressor)', 'user objective and predict hook (harness world)', 'joblib', 'time.time', 'uuid1'],
}
PROBES_EXPECTED = ['post_processing_evaluator', 'preloaded_training_data', 'hook_accept', 'hook_decline', 'trained_by_schedule', 'initially_trained', 'train_step_minus_1', 'no_hook',
                   'passthrough', 'scikit_variant', 'batch_family', 'run_family', 'parallel_family', 'predictions', 'true_evaluations', 'hook_value_numpy',
                   'hook_value_zero']

TRAIN_STEPS = (3, -1, 1, 2, 5, 10)


class StubRegressor:
    def __init__(self):
        self.fits = []

    def fit(self, x, y):
        self.fits.append(len(x))

    def score(self, x, y):
        return 1.0

    def predict(self, x, return_std=False):
        return [[0.0]] if not return_std else ([[0.0]], [0.0])


class Model:
    """reference model of the surrogate bookkeeping"""

    def __init__(self, kind, train_step, trained, hook):
        self.kind = kind
        self.train_step = train_step
        self.trained = trained
        self.hook = hook
        self.evals = 0
        self.preds = 0
        self.x = []
        self.y = []
        self.trains = []
        self.requests = 0


def _make_surrogate(kind, w, train_step, trained, trainlog):
    from artap.surrogate import SurrogateModelPredict, SurrogateModelEval
    p = w.problem
    if kind == 'eval':
        return SurrogateModelEval(p)
    if kind == 'scikit':
        from artap.surrogate_scikit import SurrogateModelScikit
        s = SurrogateModelScikit(p)
        s.regressor = StubRegressor()
        s.train_step = train_step
        s.trained = trained
        real_train = s.train

        def train():
            trainlog.append(s.eval_counter)
            return real_train()
        s.train = train
        return s

    class LoggingSurrogate(SurrogateModelPredict):
        def __init__(self, problem):
            super().__init__(problem)
            self.train_step = train_step
            self.trained = trained

        def train(self):
            trainlog.append(self.eval_counter)
            self.trained = True

        def predict(self, x, *args):
            return None

    return LoggingSurrogate(p)


class Harness:
    def __init__(self, ctx, w, D, kind, train_step, trained, hook):
        self.ctx, self.w, self.D = ctx, w, D
        self.trainlog = []
        self.sur = _make_surrogate(kind, w, train_step, trained, self.trainlog)
        w.problem.surrogate = self.sur
        self.model = Model(kind, train_step, True if kind == 'eval' else trained, hook)
        self.hook_calls = []
        self.decisions = []
        w.predict_hook = self.hook_fn
        self.req = 0
        self.exotic = False          # exotic hook values only where no Job post-processes the returned value
        self.last_hook_value = None
        self.real_evaluate = self.sur.evaluate

    def hook_fn(self, individual):
        k = self.req
        accept = self.D.dec('fault', ('hook', k), 2) == 1
        self.hook_calls.append((k, accept))
        st = self.w.sim.stats
        if accept:
            st['hook_accept'] = st.get('hook_accept', 0) + 1
            self.ctx.probe('hook_accept')
            return self.hook_value(k)
        st['hook_decline'] = st.get('hook_decline', 0) + 1
        self.ctx.probe('hook_decline')
        return None

    def hook_value(self, k):
        """what the user's predict hook returns when it accepts: any value that is not None - a list, a numpy array as
        regressors return it (possibly an exact zero), or for a single objective a bare scalar zero"""
        import numpy as np
        m = self.w.m
        kind = self.D.dec('fault', ('hookval', k), 4) if self.exotic else 0
        if kind == 1:
            self.ctx.probe('hook_value_numpy')
            return np.array([1000.0 + k] * m)
        if kind == 2:
            self.ctx.probe('hook_value_zero')
            return np.zeros(m)
        if kind == 3 and m == 1:
            self.ctx.probe('hook_value_zero')
            return 0.0
        return [1000.0 + k] * m

    @staticmethod
    def as_list(v):
        import numpy as np
        if v is None:
            return None
        if isinstance(v, (int, float, np.floating)):
            return [float(v)]
        return [float(x) for x in v]

    def request(self, individual):
        """one evaluation request through the real surrogate, then the oracle"""
        ctx, w, m, sur = self.ctx, self.w, self.model, self.sur
        site = type(sur).__mro__[1].__name__ + '.evaluate' if m.kind != 'eval' else 'SurrogateModelEval.evaluate'
        ncalls0 = len(w.calls)
        nhook0 = len(self.hook_calls)
        was_trained = m.trained
        vec = list(individual.vector)
        val = self.real_evaluate(individual)
        k = self.req
        self.req += 1
        m.requests += 1
        ctx.check()
        new_calls = w.calls[ncalls0:]
        hook = self.hook_calls[nhook0:]
        # ---- what must have happened
        consult = m.kind != 'eval' and was_trained and m.hook
        if hook and not consult:
            ctx.violation('predicted_untrained', site, 'request %d: the predict hook was consulted while the model was %s'
                          % (k, 'untrained' if not was_trained else 'not a predicting surrogate'))
            return val
        if consult and len(hook) != 1:
            ctx.violation('value', site, 'request %d: trained model with a hook, but the hook was consulted %d times' % (k, len(hook)))
            return val
        predicted = bool(consult and hook[0][1])
        self.decisions.append('P' if predicted else 'E')
        if predicted:
            ctx.probe('predictions')
            exp_val = self.as_list(self.hook_value(k))
            m.preds += 1
            if new_calls:
                ctx.violation('extra_or_missing_call', site, 'request %d was answered by the hook, yet the objective was called %d times'
                              % (k, len(new_calls)))
                return val
        else:
            ctx.probe('true_evaluations')
            exp_val = w.f(vec)
            m.evals += 1
            if len(new_calls) != 1 or list(new_calls[0].vector) != vec:
                ctx.violation('extra_or_missing_call', site, 'request %d must evaluate the true objective exactly once, it was called %d times'
                              % (k, len(new_calls)))
                return val
            if m.kind != 'eval':
                m.x.append(vec)
                m.y.append(exp_val)
                if m.train_step != -1 and m.evals % m.train_step == 0:
                    m.trains.append(m.evals)
                    m.trained = True
                    ctx.probe('trained_by_schedule')
        if val is None or self.as_list(val) != [float(v) for v in exp_val]:
            ctx.violation('value', site, 'request %d returned %r, expected %r (%s)' % (k, val, exp_val,
                                                                                       'hook value' if predicted else 'true objective'))
            return val
        if sur.eval_counter != m.evals or sur.predict_counter != m.preds or sur.eval_counter + sur.predict_counter != m.requests:
            ctx.violation('counters', site, 'after request %d: eval_counter %d / predict_counter %d, model %d / %d of %d requests'
                          % (k, sur.eval_counter, sur.predict_counter, m.evals, m.preds, m.requests))
            return val
        if m.kind != 'eval':
            if [list(x) for x in sur.x_data] != m.x or [[float(c) for c in y] for y in sur.y_data] != m.y:
                ctx.violation('training_set', site, 'after request %d: training set has %d/%d entries, model %d; or order/content differs'
                              % (k, len(sur.x_data), len(sur.y_data), len(m.x)))
                return val
            if self.trainlog != m.trains:
                ctx.violation('train_schedule', site, 'after request %d: train() ran at evaluation counts %r, expected %r (train_step %d)'
                              % (k, self.trainlog, m.trains, m.train_step))
                return val
            if bool(sur.trained) != bool(m.trained):
                ctx.violation('train_schedule', site, 'after request %d: trained flag %r, model %r' % (k, sur.trained, m.trained))
        return val


def _parallel(D):
    """requests issued by 2-3 simulated workers (Algorithm.evaluate with max_processes > 1 on a problem with a predicting
    surrogate).  Which request meets a trained model depends on the schedule, so only schedule-independent accounting is
    judged: every true evaluation is counted and recorded exactly once, the counters add up to the number of requests, and the
    model is retrained exactly at the multiples of train_step.  Pre-emption at objective-call granularity (line-level
    pre-emption off: the counter update after the objective call is a plain read-modify-write, observation O3)."""
    from artap.individual import Individual
    kind = ('predict', 'scikit')[D.dec('cfg', 'pskind', 2)]
    train_step = TRAIN_STEPS[D.dec('cfg', 'train_step', len(TRAIN_STEPS))]
    trained = D.dec('cfg', 'trained0', 3) == 1
    sim = W.begin_run(D, line_p=0.0)
    ctx = core.Ctx(PID, D, sim)
    ctx.probe('parallel_family')
    w = W.World(D, sim, fail='none', precision=0, with_predict=True, name='c19p')
    trainlog = []
    sur = _make_surrogate(kind, w, train_step, trained, trainlog)
    w.problem.surrogate = sur
    consulted = []

    def hook(individual):
        consulted.append(bool(sur.trained))
        if D.dec('fault', ('hookid', individual.id), 2) == 1:
            sim.stat('hook_accept')
            return [2000.0 + individual.id] * w.m
        sim.stat('hook_decline')
        return None
    w.predict_hook = hook
    workers = 2 + D.dec('cfg', 'pworkers', 2)
    alg = W.dummy_algorithm(w, workers=workers)
    designs = []
    site = 'SurrogateModelPredict.evaluate (parallel workers)'
    try:
        with W.quiet():
            for b in range(1 + D.dec('work', 'nb', 3)):
                batch = [Individual(W.gen_vector(w, D, 'work', ('v', b, i))) for i in range(2 + D.dec('work', ('nd', b), 8))]
                designs += batch
                alg.evaluate(batch)
    except (kernel.Deadlock, kernel.StepCap):
        raise
    except Exception as e:
        if type(e).__name__ == 'HarnessError':
            raise
        ctx.violation('unexpected_exception', site, 'parallel evaluation with a predicting surrogate raised %r' % (e,))
        return core.result(ctx, sim)
    R_, C_ = len(designs), len(w.calls)
    ctx.check()
    if not all(consulted):
        ctx.violation('predicted_untrained', site, 'the predict hook was consulted while the model was untrained')
    elif sur.eval_counter != C_ or sur.eval_counter + sur.predict_counter != R_:
        ctx.violation('counters', site, '%d requests from %d workers, %d true evaluations: eval_counter %d, predict_counter %d'
                      % (R_, workers, C_, sur.eval_counter, sur.predict_counter))
    elif len(sur.x_data) != C_ or len(sur.y_data) != C_ or sorted(tuple(x) for x in sur.x_data) != sorted(tuple(c.vector) for c in w.calls) \
            or any([float(v) for v in y] != w.f(list(x)) for x, y in zip(sur.x_data, sur.y_data)):
        ctx.violation('training_set', site, 'training set has %d/%d pairs for %d true evaluations, or a pair does not belong together'
                      % (len(sur.x_data), len(sur.y_data), C_))
    else:
        exp = [] if train_step == -1 else [k * train_step for k in range(1, C_ // train_step + 1)]
        if trainlog != exp:
            ctx.violation('train_schedule', site, 'train() ran at evaluation counts %r, expected %r (train_step %d, %d true evaluations)'
                          % (trainlog, exp, train_step, C_))
    for d in designs:
        hits = [c for c in w.calls if c.obj == id(d)]
        if len(hits) == 0 and [float(v) for v in d.costs] != [2000.0 + d.id] * w.m:
            ctx.violation('value', site, 'design id %d was not sent to the objective, yet its costs %r are not the hook value' % (d.id, list(d.costs)))
            break
        if len(hits) > 1:
            ctx.violation('extra_or_missing_call', site, 'design id %d was sent to the objective %d times' % (d.id, len(hits)))
            break
    ctx.sample = {'family': 'parallel', 'surrogate': kind, 'train_step': train_step, 'initially_trained': trained, 'workers': workers,
                  'requests': R_, 'true_evaluations': C_, 'train_at': trainlog[:10], 'policy': sim.policy}
    ctx.sig('parallel', kind, train_step, trained, workers, R_, C_, tuple(sim.sigs[:2]))
    return core.result(ctx, sim)


def _final(self, when):
    """the training set and the counters, looked at again after the caller has finished with the designs"""
    ctx, m, sur = self.ctx, self.model, self.sur
    if m.kind == 'eval' or ctx.violations:
        return
    ctx.check()
    try:
        same = [list(x) for x in sur.x_data] == m.x and [[float(c) for c in y] for y in sur.y_data] == m.y
    except (TypeError, ValueError):
        same = False
    if not same:
        ctx.violation('training_set', type(sur).__mro__[1].__name__ + '.evaluate',
                      '%s: the training set is no longer the evaluated (vector, objective value) pairs in order '
                      '(%d/%d entries, model %d; first values %r)' % (when, len(sur.x_data), len(sur.y_data), len(m.x), list(sur.y_data[:2])))
    elif sur.eval_counter != m.evals or sur.predict_counter != m.preds:
        ctx.violation('counters', type(sur).__mro__[1].__name__ + '.evaluate', '%s: eval_counter %d / predict_counter %d, model %d / %d'
                      % (when, sur.eval_counter, sur.predict_counter, m.evals, m.preds))


Harness.final = _final


def run_one(D, opts=None):
    if D.weighted('cfg', 'pfamily', (5, 1)) == 1:
        return _parallel(D)
    fam = D.weighted('cfg', 'family', (4, 1, 1))
    kind = ('predict', 'eval', 'scikit')[D.weighted('cfg', 'skind', (4, 1, 2))]
    train_step = TRAIN_STEPS[D.dec('cfg', 'train_step', len(TRAIN_STEPS))]
    trained = D.dec('cfg', 'trained0', 3) == 1
    hook = D.dec('cfg', 'nohook', 4) != 1
    # the batch family also runs with the evaluators that post-process a design after the surrogate answered (worst case:
    # appends an objective to the design's costs; gradient: evaluates neighbour designs) - the bookkeeping is the same
    ek = (None, 'worst', 'gradient')[D.weighted('cfg', 'c19evaluator', (3, 1, 1))] if fam == 1 else None
    sim = W.begin_run(D, policy='fifo', stall_p=0.0, timed=False)
    ctx = core.Ctx(PID, D, sim)
    w = W.World(D, sim, fail='none', precision=0, with_predict=hook, with_tol=ek is not None, name='c19')
    h = Harness(ctx, w, D, kind, train_step, trained, hook)
    npre = D.weighted('cfg', 'preload', (3, 1, 1, 1, 1)) if kind != 'eval' else 0
    for k in range(npre):
        # results of an earlier study handed to the surrogate through its public add_data(): they are training data, not
        # evaluations - the counters and the retraining schedule count true evaluations only
        x = W.gen_vector(w, D, 'work', ('pre', k))
        y = w.f(x)
        h.sur.add_data(list(x), list(y))
        h.model.x.append(list(x))
        h.model.y.append([float(c) for c in y])
        ctx.probe('preloaded_training_data')
    if kind == 'eval':
        ctx.probe('passthrough')
    if kind == 'scikit':
        ctx.probe('scikit_variant')
    if trained and kind != 'eval':
        ctx.probe('initially_trained')
    if train_step == -1:
        ctx.probe('train_step_minus_1')
    if not hook:
        ctx.probe('no_hook')
    from artap.individual import Individual
    try:
        with W.quiet():
            if fam == 0:
                h.exotic = True
                nreq = 1 + D.size('work', 'nreq', 40)
                for k in range(nreq):
                    ind = Individual(W.gen_vector(w, D, 'work', ('v', k)))
                    h.request(ind)
                    if ctx.violations:
                        break
            else:
                # requests produced by real Job.evaluate calls: route them through the oracle
                h.sur.evaluate = h.request
                if fam == 1:
                    ctx.probe('batch_family')
                    alg = W.dummy_algorithm(w, workers=1, evaluator=ek)
                    if ek:
                        ctx.probe('post_processing_evaluator')
                    for b in range(1 + D.dec('work', 'nb', 4)):
                        batch = [Individual(W.gen_vector(w, D, 'work', ('v', b, i))) for i in range(1 + D.dec('work', ('nd', b), 8))]
                        alg.evaluate(batch)
                        if ctx.violations:
                            break
                        h.final('after batch %d' % b)
                        if ctx.violations:
                            break
                else:
                    ctx.probe('run_family')
                    akind = D.pick('cfg', 'algo', ('nsga2', 'smpso', 'epsmoea'))
                    alg = W.make_algorithm(akind, w, 2 + D.dec('cfg', 'N', 6), 1 + D.dec('cfg', 'G', 3), workers=1)
                    alg.run()
    except (kernel.Deadlock, kernel.StepCap):
        raise
    except Exception as e:
        if type(e).__name__ == 'HarnessError':
            raise
        ctx.violation('unexpected_exception', 'surrogate.evaluate', 'request %d raised %r' % (h.req, e))
    ctx.sample = {'family': ('surrogate', 'batch', 'run')[fam], 'surrogate': kind, 'train_step': train_step, 'initially_trained': trained,
                  'hook': hook, 'requests': h.req, 'decisions': ''.join(h.decisions)[:60], 'train_at': h.trainlog[:10]}
    ctx.sig(fam, kind, train_step, trained, hook, h.req, ''.join(h.decisions))
    return core.result(ctx, sim)
