"""C04 – archive holds exactly the non-dominated set of everything ever offered.

`archive` family: a generated multiset of offers (cost vectors on a dyadic grid so
that epsilon scaling cannot collapse distinct values, feasibility markers, 1–3
objectives) is delivered to fresh Archive objects in three seeded orders (original,
permuted, permuted with duplicated deliveries) – the fault kinds `reorder` and
`duplicate` – for the Pareto and the epsilon comparator, followed by truncate.
`run` family: the same monitor follows the archives / leader sets of eps-MOEA,
OMOPSO, SMPSO and PSOGA with the clauses that stay exact on continuous costs.
"""
import math

from .. import core, kernel, monitors, refmodels as R, runfam, world as W

PID = 'C04'
LEVEL = 'exploration'
RULE = ('one case = one offer history: 1-16 offers with costs on a grid of quarters (1-3 objectives, markers False/True) delivered '
        'to three fresh archives in original / permuted / permuted-with-duplicates order under the Pareto or the epsilon '
        'comparator (eps in {0.01, 0.1, 0.5, 1, [0.1, 0.3]}), then truncate(k, feature); or one run of eps-MOEA / OMOPSO / SMPSO / '
        'PSOGA whose archive.add calls are monitored.  Oracle after every add: content (set of cost vectors, none twice) = the '
        'non-dominated subset of everything offered so far; return value <=> the offered object is now a member; the three '
        'orders end with the same content.  Non-trivial = at least one add was judged; distinct = hash of (comparator, offers).')
ASSUMPTIONS = [
    'offers of the archive family live on a grid of quarters: epsilon scaling (p / eps) can make two costs one ulp apart compare '
    'equal, so exact-content clauses are only claimed on grid values; run-derived costs get the robust clauses '
    '(mutual non-domination, add() result <=> membership, size)',
    'reference: textbook constrained Pareto dominance over the offered signed-cost vectors',
]
COMPONENTS = {
    'real': ['artap.archive.Archive.add / truncate / extend / __iadd__', 'artap.operators.ParetoDominance / EpsilonDominance',
             'run family: eps-MOEA / OMOPSO / SMPSO / PSOGA loops'],
    'stub': ['user objective (run family)', 'PRNG seam', 'joblib', 'time.time', 'uuid1'],
}
PROBES_EXPECTED = ['same_object_offered_again', 'batch_entry_points', 'infinite_cost_tie', 'truncated_again_smaller', 'archive_family', 'run_family', 'reorder', 'duplicate', 'evicts_two_or_more', 'duplicate_offer_rejected',
                   'dominated_offer_rejected', 'default_comparator_after_smaller_problem', 'twin_design_vectors', 'infeasible_offers', 'real_valued_violation_degree', 'truncate_checked', 'eps_comparator', 'pareto_comparator']


_SolCls = []


def _Sol(cs, tag, feat, vec=None):
    """an offered solution: a real Individual (Archive.remove / list.remove go through Individual.__eq__, which compares
    design vectors); several offers may carry the SAME design vector with different costs - a noisy objective evaluated twice"""
    if not _SolCls:
        from artap.individual import Individual

        class Sol(Individual):
            pass
        _SolCls.append(Sol)
    s_ = _SolCls[0]([float(tag)] if vec is None else list(vec))
    s_.costs_signed = cs
    s_.features['crowding_distance'] = feat
    s_.tag = tag
    return s_


def _content(arch):
    return [tuple(s.costs_signed) for s in arch]


def _deliver(ctx, arch, offers, order, label, cmp_name):
    """deliver offers (list of _Sol) in `order`; oracle after every add; returns final content set"""
    site = 'Archive.add'
    offered = []
    last_obj = {}
    for pos, idx in enumerate(order):
        s = offers[idx]
        sol = _Sol(list(s.costs_signed), s.tag, s.features['crowding_distance'], s.vector)
        if idx in last_obj and any(x is last_obj[idx] for x in arch) and ctx.D.dec('work', ('reoffer', label, pos), 2) == 1:
            # the very same object is offered again while it is a member (a population passed to the archive twice): a repeat
            sol = last_obj[idx]
            ctx.probe('same_object_offered_again')
            before = list(arch)
            res = arch.add(sol)
            ctx.check()
            if res or [x for x in arch if x is sol] != [sol] or len(arch) != len(before):
                ctx.violation('add_result', site, '%s order, add #%d: the member %r offered again returned %r and the archive went '
                              'from %d to %d members' % (label, pos, sol.costs_signed, res, len(before), len(arch)))
                return None
            offered.append(tuple(sol.costs_signed))
            continue
        last_obj[idx] = sol
        before = list(arch)
        try:
            res = arch.add(sol)
        except Exception as e:
            ctx.violation('unexpected_exception', site, '%s order, add #%d (%r) raised %r; offered so far %r'
                          % (label, pos, sol.costs_signed, e, offered))
            return None
        offered.append(tuple(sol.costs_signed))
        ctx.check()
        content = _content(arch)
        member = any(x is sol for x in arch)
        if bool(res) != member:
            ctx.violation('add_result', site, '%s order, add #%d of %r returned %r but the solution is%s a member'
                          % (label, pos, sol.costs_signed, res, '' if member else ' not'))
            return None
        if len(set(content)) != len(content):
            ctx.violation('duplicate_member', site, '%s order: content %r holds a cost vector twice after offering %r'
                          % (label, content, sol.costs_signed))
            return None
        distinct = list(dict.fromkeys(offered))
        exp = {distinct[i] for i in R.nondominated([list(c) for c in distinct])}
        if set(content) != exp:
            ctx.violation('content_ne_reference', site, '%s order (%s comparator): after offering %r the archive holds %r, the '
                          'non-dominated set of the offers is %r' % (label, cmp_name, offered, sorted(content), sorted(exp)))
            return None
        gone = [x for x in before if not any(x is y for y in arch)]
        if len(gone) >= 2:
            ctx.probe('evicts_two_or_more')
        if not res:
            if tuple(sol.costs_signed) in [tuple(x.costs_signed) for x in before]:
                ctx.probe('duplicate_offer_rejected')
            else:
                ctx.probe('dominated_offer_rejected')
    return set(_content(arch))


def _archive(D):
    from artap.archive import Archive
    from artap.operators import ParetoDominance, EpsilonDominance
    sim = W.begin_run(D)
    ctx = core.Ctx(PID, D, sim)
    ctx.probe('archive_family')
    m = 1 + D.dec('cfg', 'm', 3)
    k = 1 + D.size('cfg', 'k', 16)
    span = (3, 5, 9)[D.dec('cfg', 'span', 3)]
    cmpk = D.dec('cfg', 'cmp', 3)
    use_eps = cmpk >= 1
    eps = (0.1, 0.01, 0.5, 1.0, [0.1, 0.3])[D.dec('cfg', 'eps', 5)]
    infeas = D.weighted('cfg', 'infeasible', (2, 1))
    infcost = D.weighted('cfg', 'infcost', (6, 1, 1)) if not use_eps else 0     # (box indices of the epsilon comparator need finite costs)
    offers = []
    for i in range(k):
        cs = [0.25 * (D.dec('work', ('c', i, j), span) - span // 2) for j in range(m)]
        if infcost and D.dec('work', ('ci', i), 3) == 1:
            # a penalty value: the same infinity in one objective of several offers is an exact tie there
            cs[D.dec('work', ('cij', i), m)] = math.inf if infcost == 1 else -math.inf
            ctx.probe('infinite_cost_tie')
        mk = False
        if infeas:
            # markers as the library writes them (False/True) and as violation degrees of either sign (the comparators
            # rank by |degree|, 0 = feasible)
            # (no two degrees of equal magnitude and opposite sign: the sign carries no meaning, so whether -0.1 and 0.1
            #  with identical objectives are "the same cost vector" is undefined)
            mk = (False, True, False, -0.1, -0.3, 0.5, 0.2)[D.dec('work', ('mk', i), 7)]
        if mk:
            ctx.probe('infeasible_offers')
        if isinstance(mk, float):
            ctx.probe('real_valued_violation_degree')
        cs.append(mk)
        fv = D.dec('work', ('feat', i), 8)
        twin = [float(D.dec('work', ('vec', i), 3))] if D.dec('cfg', 'twins', 2) else None
        offers.append(_Sol(cs, i, float(fv) if fv < 6 else math.inf, twin))     # crowding distances are often infinite

    if cmpk == 2:
        # the library's default: Archive() shares ONE EpsilonDominance([0.1, 0.1]) instance between all archives of the
        # process; it is used for a smaller problem first (state kept inside the comparator must not leak)
        eps = [0.1, 0.1]
        pre = Archive()
        for j in range(2):
            pre.add(_Sol([0.25 * j, False], 100 + j, 0.0))      # equal markers: the objective scan runs
        ctx.probe('default_comparator_after_smaller_problem')

    if any(tuple(a_.vector) == tuple(b_.vector) for i_, a_ in enumerate(offers) for b_ in offers[i_ + 1:]):
        ctx.probe('twin_design_vectors')

    def fresh():
        if cmpk == 2:
            return Archive()
        return Archive(dominance=EpsilonDominance(epsilons=eps)) if use_eps else Archive(dominance=ParetoDominance())

    cmp_name = ('epsilon %r%s' % (eps, ' (default Archive())' if cmpk == 2 else '')) if use_eps else 'Pareto'
    ctx.probe('eps_comparator' if use_eps else 'pareto_comparator')
    o1 = list(range(k))
    o2 = sorted(range(k), key=lambda i: (D.dec('fault', ('reorder', i), 1 << 16), i))
    if o2 != o1:
        sim.stat('reorder')
        ctx.probe('reorder')
    o3 = []
    for i in o2[::-1]:
        o3.append(i)
        if D.flag('fault', ('duplicate', i), 0.3):
            o3.append(i)
            sim.stat('duplicate')
            ctx.probe('duplicate')
    finals = []
    arch = None
    with W.quiet():
        for label, order in (('original', o1), ('permuted', o2), ('duplicated', o3)):
            arch = fresh()
            c = _deliver(ctx, arch, offers, order, label, cmp_name)
            if c is None:
                break
            finals.append((label, c))
        if not ctx.violations and len(finals) == 3:
            # the batch entry points: extend(list) and += offer every element, whatever happened to the ones before it
            for how in ('extend', 'iadd'):
                a2 = fresh()
                batch = [_Sol(list(offers[i].costs_signed), offers[i].tag, offers[i].features['crowding_distance'], offers[i].vector)
                         for i in o2]
                if how == 'extend':
                    a2.extend(batch)
                else:
                    a2 += batch
                ctx.check()
                ctx.probe('batch_entry_points')
                if set(_content(a2)) != finals[1][1]:
                    ctx.violation('content_ne_reference', 'Archive.' + ('extend' if how == 'extend' else '__iadd__'),
                                  '%s comparator: %s(batch) leaves %r, adding the same offers one by one leaves %r'
                                  % (cmp_name, how, sorted(_content(a2)), sorted(finals[1][1])))
                    break
        if not ctx.violations and len(finals) == 3:
            if not (finals[0][1] == finals[1][1] == finals[2][1]):
                ctx.violation('order_dependent', 'Archive.add', '%s comparator: final contents differ between delivery orders: %r'
                              % (cmp_name, [(l, sorted(c)) for l, c in finals]))
        if not ctx.violations and arch is not None and len(arch) > 0:
            size = 1 + D.dec('work', 'tsize', max(1, len(arch) + 1))
            larger = D.dec('work', 'tlarger', 2) == 0
            before = sorted((s.features['crowding_distance'] for s in arch), reverse=larger)
            try:
                if larger:
                    arch.truncate(size, 'crowding_distance')
                else:
                    arch.truncate(size, 'crowding_distance', larger_preferred=False)
                after = sorted((s.features['crowding_distance'] for s in arch), reverse=larger)
                ctx.probe('truncate_checked')
                ctx.check()
                if after != before[:size]:
                    ctx.violation('truncate_topk', 'Archive.truncate', 'truncate(%d, larger_preferred=%s) kept feature values %r out of %r'
                                  % (size, larger, after, before))
                elif len(after) >= 2:
                    # the same archive truncated again, to a smaller size, with nothing offered in between (the population
                    # size was lowered): "truncating to a size" holds for every call
                    size2 = 1 + D.dec('work', 'tsize2', len(after) - 1)
                    if larger:
                        arch.truncate(size2, 'crowding_distance')
                    else:
                        arch.truncate(size2, 'crowding_distance', larger_preferred=False)
                    after2 = sorted((s.features['crowding_distance'] for s in arch), reverse=larger)
                    ctx.probe('truncated_again_smaller')
                    ctx.check()
                    if after2 != after[:size2]:
                        ctx.violation('truncate_topk', 'Archive.truncate', 'a second truncate(%d, larger_preferred=%s) right after '
                                      'truncate(%d) kept feature values %r out of %r' % (size2, larger, size, after2, after))
            except Exception as e:
                ctx.violation('unexpected_exception', 'Archive.truncate', 'truncate raised %r' % (e,))
    ctx.sample = {'family': 'archive', 'comparator': cmp_name, 'offers': [list(map(float, s.costs_signed[:-1])) + [s.costs_signed[-1]]
                                                                      for s in offers][:16], 'orders': [o1, o2, o3]}
    ctx.sig('archive', cmp_name, tuple(tuple(s.costs_signed) for s in offers), tuple(o2), tuple(o3))
    return core.result(ctx, sim)


def run_hooks(ctx):
    def add(orig, self, individual):
        before = list(self)
        r = orig(self, individual)
        ctx.check()
        site = 'Archive.add'
        member = any(x is individual for x in self)
        if bool(r) != member:
            ctx.violation('add_result', site, 'add(%r) returned %r but the solution is%s a member'
                          % (list(individual.costs_signed), r, '' if member else ' not'))
            return r
        L = list(self)
        for a in range(len(L)):
            for b in range(len(L)):
                if a != b and R.dominates(L[a].costs_signed, L[b].costs_signed) == 1:
                    ctx.violation('inrun_mutual_domination', site, 'member %r dominates member %r after adding %r'
                                  % (list(L[a].costs_signed), list(L[b].costs_signed), list(individual.costs_signed)))
                    return r
        if not r:
            # a rejected solution is dominated by or equal to a current member
            if not any(R.dominates(x.costs_signed, individual.costs_signed) == 1 or
                       list(x.costs_signed) == list(individual.costs_signed) for x in L):
                near = any(all(abs(a_ - b_) <= 1e-9 * max(1.0, abs(a_)) for a_, b_ in zip(x.costs_signed[:-1], individual.costs_signed[:-1]))
                           for x in L)
                if not near:
                    ctx.violation('content_ne_reference', site, 'rejected %r although no member dominates or equals it (members %r)'
                                  % (list(individual.costs_signed), [list(x.costs_signed) for x in L][:5]))
        else:
            gone = [x for x in before if not any(x is y for y in self)]
            for g in gone:
                if R.dominates(individual.costs_signed, g.costs_signed) != 1:
                    near = all(abs(a_ - b_) <= 1e-9 * max(1.0, abs(a_)) for a_, b_ in zip(g.costs_signed[:-1], individual.costs_signed[:-1]))
                    if not near:
                        ctx.violation('content_ne_reference', site, 'evicted %r which the newcomer %r does not dominate'
                                      % (list(g.costs_signed), list(individual.costs_signed)))
                        return r
            if len(gone) >= 2:
                ctx.probe('evicts_two_or_more')
        return r
    return dict(archive_add=add)


def run_one(D, opts=None):
    if D.weighted('cfg', 'family', (3, 1)) == 0:
        return _archive(D)
    info = runfam.setup(D, PID, algos=('epsmoea', 'omopso', 'smpso', 'psoga'), precision=0, fails=('none', 'light'),
                        fail_weights=(4, 1), p_exts=(0.0, 0.05), p_ext_weights=(3, 1), max_N=8, max_G=4)
    ctx = info.ctx
    ctx.probe('run_family')
    monitors.set_hooks(**run_hooks(ctx))
    runfam.execute(info)
    runfam.judge_abort(info, 'run of ' + info.kind, clause=None)
    return runfam.finish(info)
