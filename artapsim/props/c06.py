"""C06 – transient evaluation failures are retried, logged and never recorded as results.

The fault space of one design is finite: a pattern is the outcome sequence of its
attempts, each in {ok, Timeout, Runtime, other}, ending at the first ok/other or
after five failures – 187 patterns (four kinds of non-transient exception, one of them an OSError that is not a time-out).  All of them are enumerated (serial and with
two simulated workers); batches and whole runs sample one pattern per design.
"""
import itertools

from .. import core, kernel, seams, world as W
from ..decisions import Decisions

PID = 'C06'
LEVEL = 'fault_enumeration'
RULE = ('fault space of one design = 187 failure patterns (0-4 transient failures of 2 kinds followed by ok or one of 4 '
        'non-transient exception kinds, or 5 transient failures); every pattern is enumerated for a single-design batch '
        'serially and with 2 simulated workers (374 fixed cases, reported in enumerated_cases / enumeration_complete); '
        'further cases sample one pattern per design for batches of 2-8 designs, 1-4 workers, and whole NSGA-II / '
        'eps-MOEA / swarm runs with seeded failure plans.  Non-trivial = at least one planned failure fired and the '
        'oracle was evaluated on it; distinct = hash of (family, workers, per-design pattern tuple, schedule signature).')
ASSUMPTIONS = [
    'a "freshly sampled" replacement is accepted when it differs from the failed vector, or - for parameters with a '
    'coarse precision, where a fresh sample may legitimately coincide - when the PRNG seam saw new draws consumed',
    'PRNG-extreme injection is off in C06 runs',
    'in parallel batches with several propagating designs any one of the planned exceptions is accepted; designs that '
    'were never started because the batch had already aborted are not judged',
]
COMPONENTS = {
    'real': ['artap.job.Job.evaluate (retry loop)', 'artap.utils.VectorAndNumbers.gen_vector', 'artap.operators.Evaluator',
             'artap.algorithm_NSGAII / algorithm_genetic / algorithm_swarm run loops (run family)'],
    'stub': ['joblib.Parallel (SimParallel)', 'user objective with the failure plan (harness world)', 'time.time', 'uuid1'],
}
PROBES_EXPECTED = ['exactly_four_serial', 'exactly_four_parallel', 'exactly_five_serial', 'exactly_five_parallel',
                   'other_serial', 'other_parallel', 'run_family', 'abort_in_run', 'coarse_precision_resample', 'marker_after_reroll', 'second_run_after_narrowing']

T = ('timeout', 'runtime')
OTHER = ('value', 'key', 'zerodiv', 'oserror')


def all_patterns():
    pats = []
    for k in range(0, 5):
        for pre in itertools.product(T, repeat=k):
            for term in ('ok',) + OTHER:
                pats.append(tuple(pre) + (term,))
    for pre in itertools.product(T, repeat=5):
        pats.append(tuple(pre))
    return pats


PATTERNS = all_patterns()
assert len(PATTERNS) == 187


def fixed_cases(tier):
    out = []
    for wk in (0, 1):
        for i in range(len(PATTERNS)):
            out.append(('pat%d-%s' % (i, 'serial' if wk == 0 else 'par2'),
                        {"cfg/'family'": 0, "work/'pat'": i, "cfg/'eworkers'": wk}))
    return out


def classify(pat):
    if len(pat) == 5 and all(o in T for o in pat):
        return 'five'
    if pat[-1] in OTHER:
        return 'other'
    return 'ok'


def run_one(D, opts=None):
    fam = D.weighted('cfg', 'family', (1, 3, 2))
    if fam == 0:
        return _enum(D)
    if fam == 1:
        return _batch(D)
    return _run(D)


def _enum(D):
    from artap.individual import Individual
    sim = W.begin_run(D)
    ctx = core.Ctx(PID, D, sim)
    workers = 1 + D.dec('cfg', 'eworkers', 2)
    pat = PATTERNS[D.dec('work', 'pat', len(PATTERNS))]
    w = W.World(D, sim, name='c06', int_params=True)
    alg = W.dummy_algorithm(w, workers=workers)
    ind = Individual(W.gen_vector(w, D, 'work', ('v', 0)))
    w.pattern[ind.id] = list(pat)
    raised = _evaluate(alg, [ind])
    _judge(ctx, w, [ind], raised, workers, 'Job.evaluate')
    ctx.sample = {'family': 'enumeration', 'workers': workers, 'pattern': list(pat), 'n': w.n, 'box': w.boxkind}
    ctx.sig('enum', workers, pat)
    return core.result(ctx, sim)


def _evaluate(alg, batch):
    with W.quiet():
        try:
            alg.evaluate(batch)
        except (kernel.Deadlock, kernel.StepCap):
            raise
        except BaseException as e:
            if isinstance(e, (kernel.SimAbort, KeyboardInterrupt, SystemExit)):
                raise
            return e
    return None


def _pick_pattern(D, key):
    c = D.weighted('work', key + ('cls',), (8, 4, 2, 2, 2))
    if c == 0:
        return ('ok',)
    if c == 1:
        k = 1 + D.dec('work', key + ('k',), 3)
        return tuple(T[D.dec('work', key + ('t', i), 2)] for i in range(k)) + ('ok',)
    if c == 2:
        return tuple(T[D.dec('work', key + ('t', i), 2)] for i in range(4)) + ('ok',)
    if c == 3:
        return tuple(T[D.dec('work', key + ('t', i), 2)] for i in range(5))
    k = D.dec('work', key + ('k',), 5)
    return tuple(T[D.dec('work', key + ('t', i), 2)] for i in range(k)) + (OTHER[D.dec('work', key + ('o',), len(OTHER))],)


def _batch(D):
    from artap.individual import Individual
    sim = W.begin_run(D)
    ctx = core.Ctx(PID, D, sim)
    workers = 1 + D.dec('cfg', 'workers', 4)
    w = W.World(D, sim, name='c06', int_params=True)
    alg = W.dummy_algorithm(w, workers=workers)
    nd = 2 + D.dec('work', 'nd', 7)
    batch = []
    pats = []
    for i in range(nd):
        ind = Individual(W.gen_vector(w, D, 'work', ('v', i)))
        pat = _pick_pattern(D, ('p', i))
        w.pattern[ind.id] = list(pat)
        pats.append(pat)
        batch.append(ind)
    raised = _evaluate(alg, batch)
    _judge(ctx, w, batch, raised, workers, 'Job.evaluate')
    ctx.sample = {'family': 'batch', 'workers': workers, 'patterns': [list(p) for p in pats], 'n': w.n, 'box': w.boxkind,
                  'policy': sim.policy}
    ctx.sig('batch', workers, tuple(pats), w.n)
    return core.result(ctx, sim)


def _judge(ctx, w, batch, raised, workers, site):
    """oracle for one evaluate() call on `batch`, all designs of which have an explicit pattern"""
    par = workers > 1
    mode = 'parallel' if par else 'serial'
    by_obj = {}
    for c in w.calls:
        by_obj.setdefault(c.obj, []).append(c)
    failed_vecs = [tuple(float(v) for v in f.vector) for f in w.problem.failed]
    exp_failed = []
    propagating = []
    started_all = True
    aborted_at = None
    markers = {'sat': [], 'vio': []}
    for i, ind in enumerate(batch):
        pat = tuple(w.pattern[ind.id])
        cls = classify(pat)
        calls = by_obj.get(id(ind), [])
        if not calls:
            started_all = False
            if raised is None:
                ctx.violation('attempt_count', site, 'design %d was never sent to the objective although evaluate() returned'
                              % i)
            elif not par and aborted_at is None:
                ctx.violation('attempt_count', site, 'design %d skipped although no earlier design propagates an exception'
                              % i)
            continue
        if not par and aborted_at is not None:
            ctx.violation('attempt_count', site, 'design %d evaluated after design %d had propagated an exception'
                          % (i, aborted_at))
        ctx.check()
        nfail = sum(1 for o in pat if o in T)
        if nfail:
            ctx.probe('faults', nfail)
        if nfail == 4 and cls == 'ok':
            ctx.probe('exactly_four_' + mode)
        if cls == 'five':
            ctx.probe('exactly_five_' + mode)
        if cls == 'other':
            ctx.probe('other_' + mode)
        got = tuple(c.outcome for c in calls)
        if len(got) > 5:
            ctx.violation('more_than_five', site, 'design %d: %d attempts' % (i, len(got)))
            continue
        if got != pat:
            ctx.violation('attempt_count', site, 'design %d: planned outcomes %r, objective was called with outcomes %r'
                          % (i, list(pat), list(got)))
            continue
        for k, c in enumerate(calls):
            if c.outcome in T:
                exp_failed.append(tuple(float(v) for v in c.vector))
            bad = w.in_box(c.vector)
            if k > 0 and bad:
                ctx.violation('resample_out_of_box', site, 'design %d attempt %d: replacement %r: %s' % (i, k, c.vector, bad))
            if k > 0:
                prev = calls[k - 1]
                if tuple(c.vector) == tuple(prev.vector):
                    if any('precision' in p or 'parameter_type' in p for p in w.params) and c.draws - prev.draws >= w.n:
                        ctx.probe('coarse_precision_resample')
                    else:
                        ctx.violation('not_resampled', site, 'design %d attempt %d retried the failed vector %r unchanged'
                                      % (i, k, c.vector))
        if cls == 'ok':
            fin = calls[-1]
            if ind.state != ind.State.EVALUATED:
                ctx.violation('final_costs', site, 'design %d succeeded on attempt %d but its state is %s' % (i, len(calls), ind.state))
            elif tuple(ind.vector) != tuple(fin.vector) or list(ind.costs) != w.f(list(fin.vector)):
                ctx.violation('final_costs', site, 'design %d: stored vector %r / costs %r, last successful call had vector %r -> %r'
                              % (i, list(ind.vector), list(ind.costs), list(fin.vector), w.f(list(fin.vector))))
            else:
                cs = list(ind.costs_signed)
                if len(cs) != w.m + 1 or any(abs(float(cs[j]) - w.signs[j] * ind.costs[j]) > 1e-7 for j in range(w.m)):
                    ctx.violation('final_costs', site, 'design %d: signed costs %r do not belong to costs %r' % (i, cs, ind.costs))
                elif w.ncons:
                    _marker(ctx, w, markers, ind, fin, site, 'design %d' % i, len(calls) > 1)
        else:
            propagating.append((i, cls, pat))
            if aborted_at is None:
                aborted_at = i
            if ind.state == ind.State.EVALUATED:
                ctx.violation('other_marked_evaluated' if cls == 'other' else 'five_no_runtimeerror', site,
                              'design %d (%s) is marked evaluated' % (i, cls))
            failed_set = {tuple(float(v) for v in c.vector) for c in calls if c.outcome != 'ok'}
            if ind.costs and tuple(float(v) for v in ind.vector) in failed_set:
                ctx.violation('final_costs', site, 'design %d holds costs %r for a failed vector' % (i, ind.costs))
    # ---- exception seen by the caller
    if propagating:
        if raised is None:
            i, cls, pat = propagating[0]
            ctx.violation('five_no_runtimeerror' if cls == 'five' else 'other_not_propagated', site,
                          'design %d had pattern %r but evaluate() returned normally' % (i, list(pat)))
        else:
            ok_types = []
            cands = propagating if par else propagating[:1]
            for i, cls, pat in cands:
                ok_types.append(RuntimeError if cls == 'five' else W.EXC[pat[-1]])
            if not any(type(raised) is t for t in ok_types):
                i, cls, pat = cands[0]
                ctx.violation('five_no_runtimeerror' if cls == 'five' else 'other_not_propagated', site,
                              'caller received %r, planned: %s' % (raised, [t.__name__ for t in ok_types]))
    elif raised is not None:
        ctx.violation('unexpected_exception', site, 'evaluate() raised %r although no design had a propagating pattern'
                      % (raised,))
    # ---- failed list
    if par:
        if sorted(failed_vecs) != sorted(exp_failed):
            ctx.violation('failed_list', site, 'problem.failed holds %d vectors, %d transient failures happened (multisets differ)'
                          % (len(failed_vecs), len(exp_failed)))
    else:
        order = [tuple(float(v) for v in c.vector) for c in w.calls if c.outcome in T]
        if failed_vecs != order:
            ctx.violation('failed_list', site, 'problem.failed %r differs from the failed vectors in call order %r'
                          % (failed_vecs[:4], order[:4]))
    for f in w.problem.failed:
        if f.state != f.State.FAILED:
            ctx.violation('failed_list', site, 'entry of problem.failed has state %s' % f.state)
            break


def _marker(ctx, w, markers, ind, fin, site, what, rerolled):
    """the signed costs that are finally stored belong to the finally stored vector - including the feasibility marker,
    which must be the one of the re-rolled vector, not of the failed one"""
    from .. import refmodels as R
    rank = R.mrank(ind.costs_signed[-1])
    feas = w.feasible(list(fin.vector))
    if rerolled:
        ctx.probe('marker_after_reroll')
    if feas:
        markers['sat'].append(rank)
        bad = [r for r in markers['vio'] if not rank < r]
    else:
        markers['vio'].append(rank)
        bad = [r for r in markers['sat'] if not r < rank]
    if bad:
        ctx.violation('final_costs', site, '%s: finally stored vector %r has constraints %r but marker %r (%s) - it does not rank '
                      'satisfying designs ahead of violating ones' % (what, list(fin.vector), w.g(list(fin.vector)),
                                                                      ind.costs_signed[-1], 're-rolled' if rerolled else 'first attempt'))


def _run(D):
    """whole runs with a seeded failure plan; generic per-object oracle over the call log"""
    sim = W.begin_run(D)
    ctx = core.Ctx(PID, D, sim)
    ctx.probe('run_family')
    kind = D.pick('cfg', 'algo', ('nsga2', 'epsmoea', 'omopso', 'smpso', 'psoga'))
    workers = 1 + D.weighted('cfg', 'rworkers', (2, 1, 1))
    fail = ('light', 'heavy')[D.weighted('cfg', 'failrate', (3, 1))]
    N = 2 + D.size('cfg', 'N', 7)
    G = 1 + D.size('cfg', 'G', 4)
    w = W.World(D, sim, fail=fail, name='c06')
    if fail == 'heavy':
        w.fail_p = 0.45
    alg = W.make_algorithm(kind, w, N, G, workers=workers)
    raised = None
    first_calls = 0
    with W.quiet():
        try:
            if D.dec('cfg', 'second_run', 4) == 1:
                # a first (fault-free) study, then the user narrows the box in place and runs again on the same problem
                # object: replacements of failed designs must be sampled inside the box as it is now
                fp, w.fail_p = w.fail_p, 0.0
                alg.run()
                w.fail_p = fp
                first_calls = len(w.calls)
                for wp_, pp_ in zip(w.params, w.problem.parameters):
                    lb, ub = wp_['bounds']
                    nb = [lb + 0.25 * (ub - lb), ub - 0.25 * (ub - lb)]
                    wp_['bounds'] = list(nb)
                    pp_['bounds'] = list(nb)
                ctx.probe('second_run_after_narrowing')
                alg = W.make_algorithm(kind, w, N, G, workers=workers)
            alg.run()
        except (kernel.Deadlock, kernel.StepCap):
            raise
        except Exception as e:
            raised = e
    site = 'Job.evaluate'
    by_obj = {}
    for c in w.calls[first_calls:]:
        by_obj.setdefault(c.obj, []).append(c)
    five = False
    markers = {'sat': [], 'vio': []}
    shared = {}
    for calls in by_obj.values():
        f = calls[0].ref.features
        shared[id(f)] = shared.get(id(f), 0) + 1
    for obj, calls in by_obj.items():
        got = [c.outcome for c in calls]
        nf = 0
        for k, o in enumerate(got):
            if o in T:
                nf += 1
            else:
                break
        if nf:
            ctx.check()
            ctx.probe('faults', nf)
        ind = calls[0].ref
        if len(got) > 5:
            ctx.violation('more_than_five', site, 'design id %d: %d attempts' % (ind.id, len(got)))
            continue
        if nf == 5:
            five = True
            ctx.probe('exactly_five_' + ('parallel' if workers > 1 else 'serial'))
            if ind.state == ind.State.EVALUATED:
                ctx.violation('five_no_runtimeerror', site, 'design id %d failed five times and is marked evaluated' % ind.id)
            continue
        if nf == 4:
            ctx.probe('exactly_four_' + ('parallel' if workers > 1 else 'serial'))
        # a started design runs until its first success
        if got[nf:] != ['ok'] or len(got) != nf + 1:
            ctx.violation('attempt_count', site, 'design id %d: outcomes %r (expected %d failures then one success)'
                          % (ind.id, got, nf))
            continue
        for k in range(1, len(calls)):
            c, prev = calls[k], calls[k - 1]
            bad = w.in_box(c.vector)
            if bad:
                ctx.violation('resample_out_of_box', site, 'design id %d attempt %d: %s' % (ind.id, k, bad))
            if tuple(c.vector) == tuple(prev.vector):
                if any('precision' in p or 'parameter_type' in p for p in w.params) and c.draws - prev.draws >= w.n:
                    ctx.probe('coarse_precision_resample')
                else:
                    ctx.violation('not_resampled', site, 'design id %d attempt %d retried the failed vector unchanged' % (ind.id, k))
        fin = calls[-1]
        if nf and (ind.state != ind.State.EVALUATED or list(ind.costs[:w.m]) != w.f(list(fin.vector))):
            # swarm algorithms move particles after evaluation: compare at the costs level only
            ctx.violation('final_costs', site, 'design id %d: costs %r do not belong to the last attempted vector %r'
                          % (ind.id, list(ind.costs), list(fin.vector)))
        elif w.ncons and ind.state == ind.State.EVALUATED and len(ind.costs_signed) == w.m + 1:
            if shared.get(id(ind.features), 0) > 1:
                # PSOGA lets GA offspring share one features dict (observation O4 / finding F5): whose feasibility the
                # shared record holds is a C07 matter, not one of the retry logic
                ctx.probe('aliased_features_marker_skipped')
            else:
                _marker(ctx, w, markers, ind, fin, site, 'design id %d' % ind.id, nf > 0)
    failed_vecs = [tuple(float(v) for v in f.vector) for f in w.problem.failed]
    order = [tuple(float(v) for v in c.vector) for c in w.calls[first_calls:] if c.outcome in T]
    if workers == 1:
        if failed_vecs != order:
            ctx.violation('failed_list', site, 'problem.failed (%d) differs from the failed vectors in call order (%d)'
                          % (len(failed_vecs), len(order)))
    elif sorted(failed_vecs) != sorted(order):
        ctx.violation('failed_list', site, 'problem.failed (%d) and the failed calls (%d) differ as multisets'
                      % (len(failed_vecs), len(order)))
    if five:
        ctx.probe('abort_in_run')
        if not isinstance(raised, RuntimeError):
            ctx.violation('five_no_runtimeerror', site, 'a design failed five times in a row but run() ended with %r' % (raised,))
        outcome = 'sut_abort'
    else:
        outcome = None
        o5 = isinstance(raised, (TypeError, ArithmeticError, ValueError)) and any(
            x < p_['bounds'][0] or x > p_['bounds'][1] for c in w.calls[first_calls:] for x, p_ in zip(c.vector, w.params))
        if o5:
            # observation O5 (DESIGN.md 8), the rule of runfam.judge_abort: a design sampled onto the precision grid may exceed
            # a bound by less than half the precision (legal), SBX / PM of such a parent can raise (complex power, 0.0 ** negative)
            # and the run dies - no listed property promises a result there, C06 speaks of failing *objectives* only
            outcome = 'sut_abort'
            ctx.probe('o5_precision_overshoot_crash')
        elif raised is not None:
            ctx.violation('unexpected_exception', site, '%s run raised %r although no design failed five times' % (kind, raised))
    ctx.sample = {'family': 'run', 'algorithm': kind, 'N': N, 'G': G, 'workers': workers, 'fail': fail,
                  'failed_calls': len(order), 'calls': len(w.calls), 'n': w.n, 'm': w.m, 'box': w.boxkind}
    ctx.sig('run', kind, N, G, workers, len(order), tuple(c.outcome for c in w.calls[:12]), tuple(sim.sigs[:2]))
    ctx.outcome = outcome
    return core.result(ctx, sim)
