"""C09 – runs keep exact generation bookkeeping, budget and generational elitism.

Run family: NSGA-II, eps-MOEA, OMOPSO, SMPSO with the default evaluator over seeded
configurations, PRNG seeds, transient-failure plans and (in a minority of
failure-free runs) extreme legal PRNG draws.  Post-run oracle: population ledger
rebuilt from Problem.populations() and the objective's call log, textbook
constrained dominance; in-run oracle on every eps-MOEA acceptance step.
"""
from .. import core, kernel, monitors, refmodels as R, runfam, world as W

PID = 'C09'
LEVEL = 'exploration'
RULE = ('one case = one complete run: algorithm (NSGA-II / eps-MOEA / OMOPSO / SMPSO), N 2-10, G 1-5, n 1-5, m 1-4, 0-2 '
        'constraints, box kind, smooth or tie-heavy objective, serial or 2-3 simulated workers, failure plan '
        '(none / 4% / 30% transient failures per call), extreme-draw rate, SUT PRNG seed - all from the run seed.  '
        'Non-trivial = the run finished (or aborted legitimately) and the ledger oracle was evaluated; distinct = hash of '
        '(configuration, number of calls, last evaluated vectors).')
ASSUMPTIONS = [
    'parameters without coarse precision (a re-rolled design could legitimately coincide with another one otherwise); '
    'PRNG extremes only in failure-free runs for the same reason',
    'parent copies recorded by NSGA-II (state EMPTY, fresh ids) are not part of the property',
    'elitism judged with textbook constrained dominance on the stored signed costs',
    'PSOGA is outside the property (its population grows by two per generation)',
]
COMPONENTS = {
    'real': ['artap.algorithm_NSGAII.NSGAII', 'artap.algorithm_genetic.GeneticAlgorithm/EpsMOEA', 'artap.algorithm_swarm.OMOPSO/SMPSO',
             'artap.operators (selectors, SBX, mutators, sorting, truncation, dominance)', 'artap.archive.Archive',
             'artap.job.Job (retry loop)', 'artap.problem.Problem.populations'],
    'stub': ['joblib (SimParallel)', 'user objective with failure plan (harness world)', 'PRNG seam (seeded + extreme legal draws)',
             'time.time', 'uuid1'],
}
PROBES_EXPECTED = ['second_run_after_a_run_that_died', 'nsga2', 'epsmoea', 'omopso', 'smpso', 'faults', 'five_in_a_row', 'prng_extreme', 'elitism_pairs',
                   'single_objective_best', 'acceptance_dominating', 'acceptance_rejected', 'acceptance_incomparable']

ALGOS = ('nsga2', 'epsmoea', 'omopso', 'smpso')


def run_one(D, opts=None):
    info = runfam.setup(D, PID, algos=ALGOS)
    if info.fail != 'none':
        from .. import seams
        seams.RNG.p_ext = 0.0
        info.p_ext = 0.0
        info.ctx.sample['p_ext'] = 0.0
    ctx, w = info.ctx, info.w
    ctx.probe(info.kind)
    earlier = []
    if D.dec('cfg', 'died_first', 6) == 1:
        # the solver goes down in the middle of a first run (five time-outs in a row end it with an exception); the user
        # repairs it and runs the SAME algorithm object again: that run is a complete run with its own budget and generations
        w.kill_from = 1 + D.dec('cfg', 'kill_at', info.N * (info.G + 1))
        try:
            with W.quiet():
                info.alg.run()
        except (kernel.Deadlock, kernel.StepCap, kernel.Livelock):
            raise
        except Exception:
            ctx.probe('second_run_after_a_run_that_died')
        w.kill_from = None
        earlier = list(w.problem.individuals)
        del w.calls[:]
        w.attempts.clear()
        w.ncalls_ok = 0
        del w.problem.failed[:]
    if info.kind == 'epsmoea':
        monitors.set_hooks(pop_acceptance=_acceptance_hook(ctx))
    runfam.execute(info)
    site = {'nsga2': 'NSGAII.run', 'epsmoea': 'EpsMOEA.run', 'omopso': 'OMOPSO.run', 'smpso': 'SMPSO.run'}[info.kind]
    if not runfam.judge_abort(info, site):
        _ledger(info, site, earlier)
    return runfam.finish(info)


def _acceptance_hook(ctx):
    site = 'Selector.pop_acceptance'

    def hook(orig, self, individuals, individual):
        before = list(individuals)
        r = orig(self, individuals, individual)
        ctx.check()
        after = individuals
        if len(after) != len(before):
            ctx.violation('acceptance_size', site, 'working population went from %d to %d members' % (len(before), len(after)))
            return r
        dominated = [x for x in before if R.dominates(individual.costs_signed, x.costs_signed) == 1]
        is_dom = any(R.dominates(individual.costs_signed, x.costs_signed) == 2 for x in before)
        left = [x for x in before if not any(x is y for y in after)]
        entered = any(individual is y for y in after)
        if dominated:
            ctx.probe('acceptance_dominating')
            if len(left) != 1 or not any(left[0] is x for x in dominated) or not entered:
                ctx.violation('acceptance_rule', site, 'offspring %r dominates %d members; %d members left (%s), offspring entered: %s'
                              % (individual.costs_signed, len(dominated), len(left),
                                 [l.costs_signed for l in left][:2], entered))
        elif is_dom:
            ctx.probe('acceptance_rejected')
            if left or entered:
                ctx.violation('acceptance_rule', site, 'offspring %r is dominated and dominates nobody, yet the population changed'
                              % (individual.costs_signed,))
        else:
            ctx.probe('acceptance_incomparable')
            if len(left) != 1 or not entered:
                ctx.violation('acceptance_rule', site, 'incomparable offspring: %d members left, entered: %s' % (len(left), entered))
        return r
    return hook


def _ledger(info, site, earlier=()):
    ctx, w = info.ctx, info.w
    N, G, kind = info.N, info.G, info.kind
    ctx.check()
    pops = w.problem.populations()
    if earlier:
        # what an earlier (dead) run on the same problem object recorded is not part of this run
        old = {id(i) for i in earlier}
        pops = {t: [i for i in lst if id(i) not in old] for t, lst in pops.items()}
        pops = {t: lst for t, lst in pops.items() if lst}
    ok_calls = w.ncalls_ok
    if kind == 'nsga2':
        exp_tags = list(range(1, G + 1))
        exp_calls = N * G
    else:
        exp_tags = list(range(0, G + 1))
        exp_calls = N * (G + 1)
    if ok_calls != exp_calls:
        ctx.violation('budget', site, '%d successful objective evaluations, expected %d (N=%d, G=%d)' % (ok_calls, exp_calls, N, G))
    tags = sorted(pops)
    if tags != exp_tags:
        ctx.violation('tags', site, 'recorded generation tags %r, expected %r' % (tags, exp_tags))
        return
    for t in exp_tags:
        if len(pops[t]) != N:
            ctx.violation('generation_size', site, 'generation %d holds %d designs, expected %d' % (t, len(pops[t]), N))
            return
    if kind != 'nsga2':
        return
    for t in exp_tags:
        if t >= 2:
            vs = [tuple(i.vector) for i in pops[t]]
            for a in range(len(vs)):
                for b in range(a + 1, len(vs)):
                    if vs[a] == vs[b]:
                        ctx.violation('repeat_in_generation', site, 'generation %d contains the design %r twice' % (t, vs[a]))
                        return
    for t in range(1, G):
        cur = pops[t]
        nxt = pops[t + 1]
        nxt_vecs = [tuple(i.vector) for i in nxt]
        dropped = [i for i in cur if tuple(i.vector) not in nxt_vecs]
        for d in dropped:
            for s in nxt:
                ctx.probe('elitism_pairs')
                if R.dominates(d.costs_signed, s.costs_signed) == 1:
                    ctx.violation('elitism', site, 'generation %d keeps %r (signed costs %r) although the dropped design %r of '
                                  'generation %d (signed costs %r) dominates it'
                                  % (t + 1, list(s.vector), s.costs_signed, list(d.vector), t, d.costs_signed))
                    return
        if w.m == 1 and w.ncons == 0:
            ctx.probe('single_objective_best')
            b0 = min(i.costs_signed[0] for i in cur)
            b1 = min(i.costs_signed[0] for i in nxt)
            if b1 > b0:
                ctx.violation('best_regressed', site, 'best signed cost went from %r (generation %d) to %r (generation %d)'
                              % (b0, t, b1, t + 1))
                return
