"""C20 – design-point equality means equal coordinates and agrees with hashing (in-run invariant).

Wrapper on Individual.__eq__: the verdict of every comparison the optimisers
perform is compared with "all coordinates within 1e-10", re-evaluated with swapped
operands, and hashes are compared for identical vectors.  Consequence clauses: an
offspring is only rejected by GeneticAlgorithm.generate if it coincides with an
accepted one; list removal in pop_acceptance / Archive.remove hits the chosen design.
SBX exchanges single coordinates, so children sharing some but not all coordinates -
the discriminating case - occur in every run.
"""
from .. import core, monitors, refmodels as R, runfam, seams, world as W

PID = 'C20'
LEVEL = 'exploration'
RULE = ('one case = one complete run of NSGA-II / eps-MOEA / PSOGA / OMOPSO / SMPSO (n 1-5, N 2-10, G 1-5) with a wrapper on every '
        'Individual == comparison (definition, symmetry, hash agreement), on duplicate rejection inside generate() and on '
        'list removal in pop_acceptance.  Non-trivial = at least one == between designs was judged; distinct = hash of '
        '(configuration, calls, last vectors).  Covered part of the quantifier: pairs that arise in runs - identical, '
        'completely different, and (through SBX / PM) pairs sharing any subset of coordinates.')
ASSUMPTIONS = [
    'in-run invariant only; vectors of equal length n = 1..5',
    'pairs whose largest coordinate difference lies within 1e-13 of the 1e-10 threshold are not judged',
]
COMPONENTS = {
    'real': ['artap.individual.Individual.__eq__ / __hash__', 'artap.algorithm_genetic.GeneticAlgorithm.generate',
             'artap.operators.Selector.pop_acceptance', 'artap.operators.nondominated_truncate (set)', 'artap.archive.Archive.remove'],
    'stub': ['user objective', 'PRNG seam (reports the element random.choice picked)', 'joblib', 'time.time', 'uuid1'],
}
PROBES_EXPECTED = ['eq_calls', 'identical', 'all_differ', 'share_some_coordinates', 'share_last_coordinate_only_differ_elsewhere',
                   'generate_calls', 'archive_remove_derived', 'mixed_design_classes', 'scripted_generate', 'rejected_duplicates', 'removals_checked', 'identical_vectors_in_pool', 'derived_pairs', 'dedup_checked']


def hooks(ctx, w, D):
    st = {'in_generate': 0, 'last_choice': None}

    def textbook(a, b):
        d = max((abs(x - y) for x, y in zip(a.vector, b.vector)), default=0.0)
        return d, d < 1e-10

    def eq(orig, self, other):
        r = orig(self, other)
        if r is NotImplemented:
            return r        # Python goes on to the reflected method / identity: the caller's `==` is judged, not this value
        if not hasattr(other, 'vector') or len(self.vector) != len(other.vector) or len(self.vector) == 0:
            return r
        ctx.check()
        ctx.probe('eq_calls')
        d, exp = textbook(self, other)
        if abs(d - 1e-10) < 1e-13:
            return r
        same = [abs(x - y) < 1e-10 for x, y in zip(self.vector, other.vector)]
        if all(same):
            ctx.probe('identical')
        elif not any(same):
            ctx.probe('all_differ')
        else:
            ctx.probe('share_some_coordinates')
            if same[-1]:
                ctx.probe('share_last_coordinate_only_differ_elsewhere')
        site = 'Individual.__eq__'
        if bool(r) != exp:
            ctx.violation('distinct_rejected' if (st['in_generate'] and r) else 'eq_ne_definition', site if not st['in_generate'] else 'GeneticAlgorithm.generate',
                          '%r == %r evaluated to %r; coordinates %s (largest difference %r)'
                          % (list(self.vector), list(other.vector), bool(r), 'coincide' if exp else 'differ', d))
            return r
        back = orig(other, self)
        if bool(back) != bool(r):
            ctx.violation('eq_asymmetric', site, 'a == b is %r but b == a is %r for a=%r b=%r' % (r, back, list(self.vector), list(other.vector)))
        if list(self.vector) == list(other.vector) and hash(self) != hash(other):
            ctx.violation('hash_differs', site, 'identical vectors %r hash differently' % (list(self.vector),))
        if st['in_generate'] and r:
            ctx.probe('rejected_duplicates')
        return r

    def derived(parents, key):
        """== is pure: re-invoke it on pairs derived from run-produced designs - exactly one coordinate (first, middle, last)
        moved by 1e-12, 1e-9, 1e-3 relative or by half the range - so that every coordinate position and every magnitude
        class is judged, whatever SBX / PM happened to produce"""
        eq_ = monitors.ORIG['eq']
        # Archive.remove identifies the member to remove by design equality: a distinct design with the same objective values
        # removes nothing, an equal design (a fresh copy without results) removes exactly that member
        evaluated = [q for q in parents if getattr(q, 'costs_signed', None) and len(q.vector) > 0]
        if evaluated and key <= 6:
            from artap.archive import Archive
            from artap.operators import ParetoDominance
            src = evaluated[D.dec('work', ('ar', key), len(evaluated))]
            arch = Archive(dominance=ParetoDominance())
            arch.add(src)
            other = src.__class__([float(x) + 0.37 for x in src.vector])
            other.costs = list(src.costs)
            other.costs_signed = list(src.costs_signed)
            ctx.probe('archive_remove_derived')
            r1 = arch.remove(other)
            if r1 or len(arch) != 1:
                ctx.violation('removed_distinct', 'Archive.remove', 'remove(%r) with a distinct design that merely has the member\'s '
                              'objective values %r returned %r and left %d members' % (list(other.vector), list(src.costs_signed), r1, len(arch)))
                return
            twin = src.__class__(list(src.vector))
            r2 = arch.remove(twin)
            if not r2 or len(arch) != 0:
                ctx.violation('removed_distinct', 'Archive.remove', 'remove() with an equal design (fresh copy of %r, no results yet) '
                              'returned %r and left %d members' % (list(src.vector), r2, len(arch)))
                return
        for t in range(min(6, len(parents))):
            src = parents[D.dec('work', ('de', key, t, 0), len(parents))]
            n = len(src.vector)
            if n == 0:
                return
            a = src.__class__(list(src.vector))
            b = src.__class__(list(src.vector))
            mixed = D.dec('work', ('de', key, t, 4), 3) == 1
            if mixed:
                # the same point as two design classes (a design read back from a store is a plain Individual, the run's
                # own designs are IndividualNSGAII / IndividualSwarm / ...): equality is about coordinates
                from artap.individual import Individual
                a = Individual(list(src.vector))
                ctx.probe('mixed_design_classes')
            pos = (0, n // 2, n - 1)[D.dec('work', ('de', key, t, 1), 3)]
            kind = D.dec('work', ('de', key, t, 2), 5)
            x = float(b.vector[pos])
            delta = (0.0, 2e-12, 1e-9 * max(1.0, abs(x)) * 0.5, 1e-3 * max(1.0, abs(x)), 0.37)[kind]
            b.vector[pos] = x + delta
            d = abs(float(a.vector[pos]) - float(b.vector[pos]))
            if abs(d - 1e-10) < 1e-12:
                continue
            exp = d < 1e-10
            ctx.probe('derived_pairs')
            for p_, q_ in ((a, b), (b, a)):
                got = bool(p_ == q_) if mixed else bool(eq_(p_, q_))
                if mixed and kind == 0 and len({p_, q_}) != 1 and not ctx.violations:      # identical vectors only
                    ctx.violation('hash_differs', 'Individual.__hash__', 'a set keeps both %r (%s) and %r (%s): set-based '
                                  'de-duplication does not see one design' % (list(p_.vector), type(p_).__name__,
                                                                              list(q_.vector), type(q_).__name__))
                    return
                if got != exp:
                    ctx.violation('eq_ne_definition', 'Individual.__eq__', '%r == %r evaluated to %r; they differ by %r in coordinate %d '
                                  '(pair derived from a run design)' % (list(p_.vector), list(q_.vector), got, d, pos))
                    return
            if list(a.vector) == list(b.vector) and hash(a) != hash(b):
                ctx.violation('hash_differs', 'Individual.__hash__', 'identical vectors %r hash differently' % (list(a.vector),))
                return
            # a design that has been hashed and then moved must hash like its new vector - whether the vector was
            # replaced (generate, sync) or edited in place (swarm position update)
            h0 = hash(b)
            if D.dec('work', ('de', key, t, 3), 2):
                b.vector = list(a.vector)
            else:
                for i_ in range(n):
                    b.vector[i_] = a.vector[i_]
            if hash(b) != hash(a):
                ctx.violation('hash_differs', 'Individual.__hash__', 'a design hashed at %r and then moved to %r does not hash like a fresh '
                              'design there (%r vs %r): set() cannot de-duplicate them' % (x + delta, list(a.vector), hash(b), hash(a)))
                return

    def scripted_generate(orig, self, parents, key):
        """generate() once more on the same parents, with a scripted crossover and an identity mutator (both are pluggable
        attributes of the algorithm) that hand out prepared children: repeats, children within 1e-10 of an accepted one,
        children a few 1e-10 apart (absolutely, and relative to a large coordinate), clearly distinct ones.  The returned
        offspring must be exactly what the stated rule accepts - however the library decides "repeated".  The PRNG and the id
        counter are put back afterwards: the run itself is not disturbed."""
        from artap.individual import Individual
        n = len(parents[0].vector)
        if n == 0:
            return
        N = self.options['max_population_size']
        bases = [[float(x) for x in p.vector] for p in parents[:4]]
        deltas = (0.0, 4e-11, 3.4e-10, 7e-10, 1e-3)
        handed = []
        count = [0]

        def next_pair():
            t = count[0]
            count[0] += 1
            if t < 2 * N:
                b = bases[D.dec('work', ('sg', key, t, 0), len(bases))]
                j = D.dec('work', ('sg', key, t, 1), n)
                k = D.dec('work', ('sg', key, t, 2), len(deltas))
                sc = max(1.0, abs(b[j]))
                d = deltas[k] * (sc if k >= 3 else 1.0)
                if k == 1 and sc > 1e3:
                    d = 0.0         # 4e-11 is below the resolution of such a coordinate
                v2 = list(b)
                v2[j] = b[j] + d
                pair = (list(b), v2)
            else:
                # afterwards clearly distinct children, so that the loop ends
                b = bases[0]
                v1, v2 = list(b), list(b)
                v1[0] = b[0] + (2 * t) * 0.01 * max(1.0, abs(b[0]))
                v2[0] = b[0] + (2 * t + 1) * 0.01 * max(1.0, abs(b[0]))
                pair = (v1, v2)
            handed.append(pair)
            return list(pair[0]), list(pair[1])

        class Cx:
            def cross(self_, p1, p2):
                return next_pair()

        class Mu:
            def mutate(self_, a, *rest):
                return a

        rng = seams.RNG
        saved = (Individual.counter, rng.r.getstate(), rng.draws, rng.extremes, rng.last_sample, rng.last_choice, rng.trace)
        cx, mu = self.crossover, self.mutator
        self.crossover, self.mutator = Cx(), Mu()
        st['in_generate'] += 1          # the == calls inside are judged by the eq hook as duplicate rejections
        try:
            out = orig(self, parents)
        finally:
            st['in_generate'] -= 1
            self.crossover, self.mutator = cx, mu
            Individual.counter = saved[0]
            rng.r.setstate(saved[1])
            rng.draws, rng.extremes, rng.last_sample, rng.last_choice, rng.trace = saved[2:]
        if ctx.violations:
            return
        ctx.probe('scripted_generate')
        flat = [v for pr in handed for v in pr]

        def dist(a, b):
            return max(abs(x - y) for x, y in zip(a, b))
        if any(0.6e-10 < dist(a, b) < 2.5e-10 for i, a in enumerate(flat) for b in flat[i + 1:]):
            return          # a pair too close to the 1e-10 threshold to call
        ref = []
        for c1, c2 in handed:
            if len(ref) >= N:
                break
            if len(ref) == 0:
                ref.append(c1)
            if not (any(dist(c1, o) < 1e-10 for o in ref) and len(ref) < N):
                ref.append(c1)
            if any(dist(c2, o) < 1e-10 for o in ref) and len(ref) < N:
                pass
            elif len(ref) < N:
                ref.append(c2)
        got = [[float(x) for x in o.vector] for o in out]
        ctx.check()
        if got != ref:
            lost = [v for v in ref if v not in got]
            extra = [v for v in got if v not in ref]
            ctx.violation('distinct_rejected' if lost else 'duplicate_accepted', 'GeneticAlgorithm.generate',
                          'offspring generation over scripted children (population size %d): %d offspring returned, the rule '
                          '"reject a child only if it coincides with an accepted one to 1e-10" gives %d; distinct children '
                          'dropped %r, repeated children accepted %r' % (N, len(got), len(ref), lost[:3], extra[:3]))

    def generate(orig, self, parents, archive=None):
        from artap.individual import Individual
        st['gen'] = st.get('gen', 0) + 1
        if st['gen'] <= 25 and parents and not ctx.violations:
            saved = Individual.counter
            try:
                derived(list(parents), st['gen'])
            finally:
                Individual.counter = saved
        if st['gen'] <= 4 and parents and not ctx.violations and st['in_generate'] == 0:
            scripted_generate(orig, self, list(parents), st['gen'])
        st['in_generate'] += 1
        ctx.probe('generate_calls')
        try:
            return orig(self, parents, archive) if archive is not None else orig(self, parents)
        finally:
            st['in_generate'] -= 1

    def pop_acceptance(orig, self, individuals, individual):
        before = list(individuals)
        seams.RNG.last_choice = None
        r = orig(self, individuals, individual)
        left = [x for x in before if not any(x is y for y in individuals)]
        ch = seams.RNG.last_choice
        if len(left) == 1 and ch is not None and not isinstance(ch, int) and any(ch is x for x in before):
            ctx.check()
            ctx.probe('removals_checked')
            if left[0] is not ch and not textbook(left[0], ch)[1]:
                ctx.violation('wrong_element_removed', 'Selector.pop_acceptance', 'random.choice picked the design %r for removal but '
                              '%r left the population' % (list(ch.vector), list(left[0].vector)))
        return r

    def archive_remove(orig, self, solution):
        before = list(self)
        r = orig(self, solution)
        left = [x for x in before if not any(x is y for y in self)]
        if len(left) == 1:
            ctx.check()
            ctx.probe('removals_checked')
            if left[0] is not solution and not textbook(left[0], solution)[1]:
                ctx.violation('wrong_element_removed', 'Archive.remove', 'asked to remove %r, removed %r'
                              % (list(solution.vector), list(left[0].vector)))
        return r

    def truncate(orig, population, size):
        # set-based de-duplication relies on identical vectors hashing identically (== is only asked when hashes agree)
        groups = {}
        for ind in population:
            groups.setdefault(tuple(ind.vector), []).append(ind)
        for vec, members in groups.items():
            if len(members) >= 2:
                ctx.check()
                ctx.probe('identical_vectors_in_pool')
                if len({hash(x) for x in members}) != 1:
                    ctx.violation('hash_differs', 'Individual.__hash__', 'designs with the identical vector %r hash differently: '
                                  'set() cannot de-duplicate them' % (list(vec),))
                    break
        res = orig(population, size)
        # "set-based de-duplication identifies precisely repeated designs and never discards a distinct one": the pool is
        # truncated again (pure function) to more than its length - exactly one representative of every distinct vector
        pool = list(population)
        if st.get('tr', 0) < 20 and not ctx.violations:
            st['tr'] = st.get('tr', 0) + 1
            full = orig(list(pool), len(pool) + 1)
            want = sorted({tuple(i.vector) for i in pool})
            got = sorted(tuple(i.vector) for i in full)
            ctx.check()
            ctx.probe('dedup_checked')
            if got != want:
                twice = sorted({v for v in got if got.count(v) > 1})
                lost = sorted(set(want) - set(got))
                ctx.violation('distinct_rejected' if lost else 'hash_differs', 'nondominated_truncate',
                              'de-duplication of a pool of %d (%d distinct designs) returned %d individuals: repeated designs kept '
                              'twice %r, distinct designs lost %r' % (len(pool), len(want), len(got), twice[:3], lost[:3]))
        return res

    return dict(eq=eq, generate=generate, pop_acceptance=pop_acceptance, archive_remove=archive_remove, truncate=truncate)


def run_one(D, opts=None):
    info = runfam.setup(D, PID, algos=('nsga2', 'epsmoea', 'psoga', 'omopso', 'smpso'), precision=None,
                        fails=('none', 'light'), fail_weights=(4, 1), p_exts=(0.0, 0.05, 0.3), p_ext_weights=(3, 1, 1), max_N=10)
    ctx = info.ctx
    ctx.probe(info.kind)
    monitors.set_hooks(**hooks(ctx, info.w, D))
    runfam.execute(info)
    runfam.judge_abort(info, 'run of ' + info.kind, clause=None)
    return runfam.finish(info)
