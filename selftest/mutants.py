"""Mutant library for the sensitivity self-test (DESIGN.md §9).  Each mutant is a small
textual edit of a scratch copy of /repo/artap; it still imports and is of the kind that
passes the repository's own tests.  (name, property, file, old, new)"""

M = []


def m(name, prop, file, old, new, count=1):
    M.append({'name': name, 'property': prop, 'file': file, 'old': old, 'new': new, 'count': count})


# ---------------------------------------------------------------- C05
m('c05_scalar_unsigned', 'C05', 'operators.py',
  "        self.job.evaluate(individual)\n        return individual.costs_signed[0]",
  "        self.job.evaluate(individual)\n        return individual.costs[0]")
m('c05_no_state_check_serial', 'C05', 'operators.py',
  "            if individual.state == individual.State.EMPTY:\n                individual.costs.append(self.job.evaluate(individual))",
  "            if True:\n                individual.costs.append(self.job.evaluate(individual))")
m('c05_no_state_check_job', 'C05', 'job.py',
  "        if individual.state == individual.State.EVALUATED:\n            return",
  "        if False:\n            return")
m('c05_marker_inverted', 'C05', 'individual.py',
  'self.costs_signed.append(not self.features["feasible"])',
  'self.costs_signed.append(bool(self.features["feasible"]))')
m('c05_constraint_le', 'C05', 'job.py', "all(v < eps for (v) in constraints)", "all(v <= 0.5 for (v) in constraints)")

# ---------------------------------------------------------------- C06
m('c06_range4', 'C06', 'job.py', "for i in range(5):", "for i in range(4):")
m('c06_range6', 'C06', 'job.py', "for i in range(5):", "for i in range(6):")
m('c06_no_failed_append', 'C06', 'job.py', "                self.problem.failed.append(failed_individual)\n", "")
m('c06_no_resample', 'C06', 'job.py',
  "                individual.vector = VectorAndNumbers.gen_vector(self.problem.parameters)\n", "")
m('c06_except_exception', 'C06', 'job.py', "except (TimeoutError, RuntimeError) as e:", "except Exception as e:")
m('c06_timeout_only', 'C06', 'job.py', "except (TimeoutError, RuntimeError) as e:", "except TimeoutError as e:")

# ---------------------------------------------------------------- C07
m('c07_swallow_operational_error', 'C07', 'datastore.py',
  "                # try again\n                self.sync_individual(individual)", "                # try again\n                pass")
m('c07_sync_before_state', 'C07', 'job.py',
  "                # set evaluated\n                individual.state = individual.State.EVALUATED\n                # info\n"
  "                individual.features[\"finish_time\"] = time.time()\n                # write to store\n"
  "                self.problem.data_store.sync_individual(individual)\n",
  "                # write to store\n                self.problem.data_store.sync_individual(individual)\n"
  "                # set evaluated\n                individual.state = individual.State.EVALUATED\n                # info\n"
  "                individual.features[\"finish_time\"] = time.time()\n")
m('c07_shared_scratch', 'C07', 'job.py',
  "                costs = self.problem.surrogate.evaluate(individual)\n                individual.costs = costs\n",
  "                self._cur = individual\n                costs = self.problem.surrogate.evaluate(individual)\n"
  "                self._cur.costs = costs\n")
m('c07_no_sharedmem', 'C07', 'operators.py', "verbose=1, require='sharedmem')(", "verbose=1)(")

# ---------------------------------------------------------------- C10
m('c10_insert_or_ignore', 'C10', 'datastore.py',
  'sql_individuals_upsert = "INSERT INTO individuals (id, individual) VALUES(?,?) ON CONFLICT(id) DO UPDATE SET individual=excluded.individual;"',
  'sql_individuals_upsert = "INSERT OR IGNORE INTO individuals (id, individual) VALUES(?,?);"')
m('c10_rounded_vector', 'C10', 'individual.py', "'vector': list(self.vector),", "'vector': [round(v, 12) for v in self.vector],")
m('c10_no_final_sync_all_psoga', 'C10', 'algorithm_swarm.py',
  "        self.problem.logger.info(\"PSOGA: elapsed time: {} s\".format(t))\n        # sync changed individual informations\n"
  "        self.problem.data_store.sync_all()",
  "        self.problem.logger.info(\"PSOGA: elapsed time: {} s\".format(t))\n        # sync changed individual informations\n"
  "        pass")
m('c10_no_pk', 'C10', 'datastore.py', "individuals (id int PRIMARY KEY, individual json not null);\"\n",
  "individuals (id int, individual json not null);\"\n")
m('c10_from_dict_drops_custom', 'C10', 'individual.py', "        individual.custom = dictionary['custom']\n", "        individual.custom = {}\n")
m('c10_costs_signed_as_costs', 'C10', 'individual.py', "        individual.costs_signed = dictionary['costs_signed']\n",
  "        individual.costs_signed = dictionary['costs']\n")

# ---------------------------------------------------------------- C11
m('c11_journal_off', 'C11', 'datastore.py', "c.execute('PRAGMA journal_mode = ON')", "c.execute('PRAGMA journal_mode = OFF')")
m('c11_early_sync_before_costs', 'C11', 'job.py',
  "                costs = self.problem.surrogate.evaluate(individual)\n                individual.costs = costs\n",
  "                costs = self.problem.surrogate.evaluate(individual)\n                individual.state = individual.State.EVALUATED\n"
  "                self.problem.data_store.sync_individual(individual)\n                individual.costs = costs\n")
m('c11_batched_commit', 'C11', 'datastore.py',
  "            conn = self.conn()\n            c = conn.cursor()\n\n            # data\n            try:\n"
  "                c.execute(self.sql_individuals_upsert, [individual.id, json.dumps(individual.to_dict())])\n"
  "                conn.commit()\n",
  "            if getattr(self, '_bconn', None) is None:\n                self._bconn = self.conn()\n                self._bn = 0\n"
  "            conn = self._bconn\n            c = conn.cursor()\n\n            # data\n            try:\n"
  "                c.execute(self.sql_individuals_upsert, [individual.id, json.dumps(individual.to_dict())])\n"
  "                self._bn += 1\n                if self._bn % 4 == 0:\n                    conn.commit()\n")

# ---------------------------------------------------------------- C09
m('c09_nsga2_extra_generation', 'C09', 'algorithm_NSGAII.py', "for it in range(self.options['max_population_number']-1):",
  "for it in range(self.options['max_population_number']):")
m('c09_truncate_n_minus_1', 'C09', 'algorithm_NSGAII.py',
  "individuals = nondominated_truncate(offsprings, self.options['max_population_size'])",
  "individuals = nondominated_truncate(offsprings, max(1, self.options['max_population_size'] - (1 if it % 3 == 2 else 0)))")
m('c09_half_parent_copies', 'C09', 'algorithm_NSGAII.py',
  "            for individual in individuals:\n                offsprings.append(individual.copy())",
  "            for individual in individuals[::2]:\n                offsprings.append(individual.copy())")
m('c09_accept_dominated', 'C09', 'operators.py', "        elif not dominated:\n            individuals.remove(random.choice(individuals))",
  "        elif not dominated or len(individuals) > 6:\n            individuals.remove(random.choice(individuals))")
m('c09_epsmoea_loop_short', 'C09', 'algorithm_genetic.py', "        for it in range(self.options['max_population_number']):\n            # generate and evaluate the next generation",
  "        for it in range(max(1, self.options['max_population_number'] - (self.options['max_population_number'] > 3))):\n            # generate and evaluate the next generation")
m('c09_generate_dedup_shrinks', 'C09', 'algorithm_genetic.py',
  "        return offsprings\n\n    def run(self):\n        pass",
  "        return offsprings if len(parents) < 7 else offsprings[:-1]\n\n    def run(self):\n        pass")

# ---------------------------------------------------------------- C08
# (removing the clip of PmMutator.pm_mutation alone is an equivalent mutant: Deb's bounded polynomial mutation stays inside
#  [lb, ub] by construction up to a few ulp, which the C08 tolerance absorbs - measured: 18 000 runs clean)
m('c08_pm_wrong_delta_no_clip', 'C08', 'operators.py', "        delta2 = (ub - x) / dx\n", "        delta2 = (ub - x) / dx * 1.5\n")
m('c08_sbx_no_clip_c1', 'C08', 'operators.py', "                        c1 = self.clip(c1, lb, ub)\n", "")
m('c08_sbx_no_clip_c2', 'C08', 'operators.py', "                        c2 = self.clip(c2, lb, ub)\n", "")
m('c08_omopso_no_lower_branch', 'C08', 'algorithm_swarm.py',
  "                # adjust minimum position if necessary\n                if individual.vector[i] < parameter['bounds'][0]:\n"
  "                    individual.vector[i] = parameter['bounds'][0]\n                    individual.features['velocity'][i] *= -1\n\n"
  "    def update_global_best(self, swarm):\n        \"\"\" Manages the leader class in OMOPSO. \"\"\"\n\n        # the fitness of the particles are calculated by their crowding distance\n\n        # crowding_distance(swarm)",
  "    def update_global_best(self, swarm):\n        \"\"\" Manages the leader class in OMOPSO. \"\"\"\n\n        # the fitness of the particles are calculated by their crowding distance\n\n        # crowding_distance(swarm)")
m('c08_uniform_mutation_clip_swapped', 'C08', 'operators.py',
  "        x = x + (random.random() - 0.5) * self.perturbation\n        x = self.clip(x, lb, ub)",
  "        x = x + (random.random() - 0.5) * self.perturbation\n        x = self.clip(x, lb, ub + 1e-3 * (ub - lb))")
m('c08_gen_number_round_up', 'C08', 'utils.py', "number = round(number / precision) * precision",
  "number = (round(number / precision) + (1 if number > bounds[1] - 1e-4 * (bounds[1] - bounds[0]) else 0)) * precision")
m('c08_nonuniform_no_clip', 'C08', 'operators.py',
  "        if isinstance(x, complex):\n            print(x)\n        x = self.clip(x, lb, ub)", "        if isinstance(x, complex):\n            print(x)\n        x = max(x, lb)")

# ---------------------------------------------------------------- C18
m('c18_pbest_replace_only_if_dominating', 'C18', 'algorithm_swarm.py', "            if flag != 2:\n                particle.features['best_cost'] = particle.costs_signed",
  "            if flag == 1:\n                particle.features['best_cost'] = particle.costs_signed")
m('c18_pbest_wrong_direction', 'C18', 'algorithm_swarm.py', "            if flag != 2:\n                particle.features['best_cost'] = particle.costs_signed",
  "            if flag != 1:\n                particle.features['best_cost'] = particle.costs_signed")
m('c18_no_velocity_clamp_low', 'C18', 'algorithm_swarm.py', "        velocity = max(velocity, -delta_i)\n", "")
m('c18_smpso_no_damping_low', 'C18', 'algorithm_swarm.py',
  "                    individual.vector[i] = parameter['bounds'][0]\n                    individual.features['velocity'][i] *= 0.001\n",
  "                    individual.vector[i] = parameter['bounds'][0]\n")
m('c18_psoga_no_reversal', 'C18', 'algorithm_swarm.py',
  "                if individual.vector[i] > parameter['bounds'][1]:\n                    individual.vector[i] = parameter['bounds'][1]\n"
  "                    individual.features['velocity'][i] *= -1\n\n                if individual.vector[i] < parameter['bounds'][0]:",
  "                if individual.vector[i] > parameter['bounds'][1]:\n                    individual.vector[i] = parameter['bounds'][1]\n"
  "\n                if individual.vector[i] < parameter['bounds'][0]:")
m('c18_leaders_truncate_n_plus_1', 'C18', 'algorithm_swarm.py',
  "        self.leaders += swarm\n        self.leaders.truncate(self.options['max_population_size'], 'crowding_distance')\n        # self.problem.archive += swarm",
  "        self.leaders += swarm\n        self.leaders.truncate(self.options['max_population_size'] + 1, 'crowding_distance')\n        # self.problem.archive += swarm")
m('c18_omopso_leaders_all', 'C18', 'algorithm_swarm.py', "            if particle.features['front_number'] == 1:\n                pareto.append(particle)\n        for item in pareto:\n            self.leaders.append(item)",
  "            if particle.features['front_number'] == 1:\n                pareto.append(particle)\n        for item in pareto:\n            self.leaders._contents.append(item)")
