"""Mutant library for the sensitivity self-test (DESIGN.md §9).  Each mutant is a small
textual edit of a scratch copy of /repo/artap; it still imports and is of the kind that
passes the repository's own tests.  (name, property, file, old, new)"""

M = []


def m(name, prop, file, old, new, count=1):
    M.append({'name': name, 'property': prop, 'file': file, 'old': old, 'new': new, 'count': count})


# ---------------------------------------------------------------- C05
m('c05_scalar_unsigned', 'C05', 'operators.py',
  "        self.job.evaluate(individual)\n        return individual.costs_signed[0]",
  "        self.job.evaluate(individual)\n        return individual.costs[0]")
m('c05_no_state_check_serial', 'C05', 'operators.py',
  "            if individual.state == individual.State.EMPTY:\n                individual.costs.append(self.job.evaluate(individual))",
  "            if True:\n                individual.costs.append(self.job.evaluate(individual))")
m('c05_no_state_check_job', 'C05', 'job.py',
  "        if individual.state == individual.State.EVALUATED:\n            return",
  "        if False:\n            return")
m('c05_marker_inverted', 'C05', 'individual.py',
  'self.costs_signed.append(not self.features["feasible"])',
  'self.costs_signed.append(bool(self.features["feasible"]))')
m('c05_constraint_le', 'C05', 'job.py', "all(v < eps for (v) in constraints)", "all(v <= 0.5 for (v) in constraints)")

# ---------------------------------------------------------------- C06
m('c06_range4', 'C06', 'job.py', "for i in range(5):", "for i in range(4):")
m('c06_range6', 'C06', 'job.py', "for i in range(5):", "for i in range(6):")
m('c06_no_failed_append', 'C06', 'job.py', "                self.problem.failed.append(failed_individual)\n", "")
m('c06_no_resample', 'C06', 'job.py',
  "                individual.vector = VectorAndNumbers.gen_vector(self.problem.parameters)\n", "")
m('c06_except_exception', 'C06', 'job.py', "except (TimeoutError, RuntimeError) as e:", "except Exception as e:")
m('c06_timeout_only', 'C06', 'job.py', "except (TimeoutError, RuntimeError) as e:", "except TimeoutError as e:")

# ---------------------------------------------------------------- C07
m('c07_swallow_operational_error', 'C07', 'datastore.py',
  "                # try again\n                self.sync_individual(individual)", "                # try again\n                pass")
m('c07_sync_before_state', 'C07', 'job.py',
  "                # set evaluated\n                individual.state = individual.State.EVALUATED\n                # info\n"
  "                individual.features[\"finish_time\"] = time.time()\n                # write to store\n"
  "                self.problem.data_store.sync_individual(individual)\n",
  "                # write to store\n                self.problem.data_store.sync_individual(individual)\n"
  "                # set evaluated\n                individual.state = individual.State.EVALUATED\n                # info\n"
  "                individual.features[\"finish_time\"] = time.time()\n")
m('c07_shared_scratch', 'C07', 'job.py',
  "                costs = self.problem.surrogate.evaluate(individual)\n                individual.costs = costs\n",
  "                self._cur = individual\n                costs = self.problem.surrogate.evaluate(individual)\n"
  "                self._cur.costs = costs\n")
m('c07_no_sharedmem', 'C07', 'operators.py', "verbose=1, require='sharedmem')(", "verbose=1)(")

# ---------------------------------------------------------------- C10
m('c10_insert_or_ignore', 'C10', 'datastore.py',
  'sql_individuals_upsert = "INSERT INTO individuals (id, individual) VALUES(?,?) ON CONFLICT(id) DO UPDATE SET individual=excluded.individual;"',
  'sql_individuals_upsert = "INSERT OR IGNORE INTO individuals (id, individual) VALUES(?,?);"')
m('c10_rounded_vector', 'C10', 'individual.py', "'vector': list(self.vector),", "'vector': [round(v, 12) for v in self.vector],")
m('c10_no_final_sync_all_psoga', 'C10', 'algorithm_swarm.py',
  "        self.problem.logger.info(\"PSOGA: elapsed time: {} s\".format(t))\n        # sync changed individual informations\n"
  "        self.problem.data_store.sync_all()",
  "        self.problem.logger.info(\"PSOGA: elapsed time: {} s\".format(t))\n        # sync changed individual informations\n"
  "        pass")
m('c10_no_pk', 'C10', 'datastore.py', "individuals (id int PRIMARY KEY, individual json not null);\"\n",
  "individuals (id int, individual json not null);\"\n")
m('c10_from_dict_drops_custom', 'C10', 'individual.py', "        individual.custom = dictionary['custom']\n", "        individual.custom = {}\n")
m('c10_costs_signed_as_costs', 'C10', 'individual.py', "        individual.costs_signed = dictionary['costs_signed']\n",
  "        individual.costs_signed = dictionary['costs']\n")

# ---------------------------------------------------------------- C11
m('c11_journal_off', 'C11', 'datastore.py', "c.execute('PRAGMA journal_mode = ON')", "c.execute('PRAGMA journal_mode = OFF')")
m('c11_early_sync_before_costs', 'C11', 'job.py',
  "                costs = self.problem.surrogate.evaluate(individual)\n                individual.costs = costs\n",
  "                costs = self.problem.surrogate.evaluate(individual)\n                individual.state = individual.State.EVALUATED\n"
  "                self.problem.data_store.sync_individual(individual)\n                individual.costs = costs\n")
m('c11_batched_commit', 'C11', 'datastore.py',
  "            conn = self.conn()\n            c = conn.cursor()\n\n            # data\n            try:\n"
  "                c.execute(self.sql_individuals_upsert, [individual.id, json.dumps(individual.to_dict())])\n"
  "                conn.commit()\n",
  "            if getattr(self, '_bconn', None) is None:\n                self._bconn = self.conn()\n                self._bn = 0\n"
  "            conn = self._bconn\n            c = conn.cursor()\n\n            # data\n            try:\n"
  "                c.execute(self.sql_individuals_upsert, [individual.id, json.dumps(individual.to_dict())])\n"
  "                self._bn += 1\n                if self._bn % 4 == 0:\n                    conn.commit()\n")
