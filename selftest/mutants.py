"""Mutant library for the sensitivity self-test (DESIGN.md §9).  Each mutant is a small
textual edit of a scratch copy of /repo/artap; it still imports and is of the kind that
passes the repository's own tests.  (name, property, file, old, new)"""

M = []


def m(name, prop, file, old, new, count=1):
    M.append({'name': name, 'property': prop, 'file': file, 'old': old, 'new': new, 'count': count})


# ---------------------------------------------------------------- C05
m('c05_scalar_unsigned', 'C05', 'operators.py',
  "        self.job.evaluate(individual)\n        return individual.costs_signed[0]",
  "        self.job.evaluate(individual)\n        return individual.costs[0]")
m('c05_no_state_check_serial', 'C05', 'operators.py',
  "            if individual.state == individual.State.EMPTY:\n                individual.costs.append(self.job.evaluate(individual))",
  "            if True:\n                individual.costs.append(self.job.evaluate(individual))")
m('c05_no_state_check_job', 'C05', 'job.py',
  "        if individual.state == individual.State.EVALUATED:\n            return",
  "        if False:\n            return")
m('c05_marker_inverted', 'C05', 'individual.py',
  'self.costs_signed.append(not self.features["feasible"])',
  'self.costs_signed.append(bool(self.features["feasible"]))')
m('c05_constraint_le', 'C05', 'job.py', "all(v < eps for (v) in constraints)", "all(v <= 0.5 for (v) in constraints)")

m('c05_sign_skipped_without_criteria', 'C05', 'problem.py',
  "            else:\n                self.signs.append(1)\n", "")
m('c05_sign_of_missing_criteria_taken_from_previous', 'C05', 'problem.py',
  "            else:\n                self.signs.append(1)\n", "            else:\n                self.signs.append(self.signs[-1] if self.signs else 1)\n")

# ---------------------------------------------------------------- C06
m('c06_range4', 'C06', 'job.py', "for i in range(5):", "for i in range(4):")
m('c06_range6', 'C06', 'job.py', "for i in range(5):", "for i in range(6):")
m('c06_no_failed_append', 'C06', 'job.py', "                self.problem.failed.append(failed_individual)\n", "")
m('c06_no_resample', 'C06', 'job.py',
  "                individual.vector = VectorAndNumbers.gen_vector(self.problem.parameters)\n", "")
m('c06_except_exception', 'C06', 'job.py', "except (TimeoutError, RuntimeError) as e:", "except Exception as e:")
m('c06_timeout_only', 'C06', 'job.py', "except (TimeoutError, RuntimeError) as e:", "except TimeoutError as e:")

# ---------------------------------------------------------------- C07
m('c07_swallow_operational_error', 'C07', 'datastore.py',
  "                # try again\n                self.sync_individual(individual)", "                # try again\n                pass")
m('c07_sync_before_state', 'C07', 'job.py',
  "                # set evaluated\n                individual.state = individual.State.EVALUATED\n                # info\n"
  "                individual.features[\"finish_time\"] = time.time()\n                # write to store\n"
  "                self.problem.data_store.sync_individual(individual)\n",
  "                # write to store\n                self.problem.data_store.sync_individual(individual)\n"
  "                # set evaluated\n                individual.state = individual.State.EVALUATED\n                # info\n"
  "                individual.features[\"finish_time\"] = time.time()\n")
m('c07_shared_scratch', 'C07', 'job.py',
  "                costs = self.problem.surrogate.evaluate(individual)\n                individual.costs = list(costs)  # a numpy array would break later list operations (append, vector + costs)\n",
  "                self._cur = individual\n                costs = self.problem.surrogate.evaluate(individual)\n"
  "                self._cur.costs = list(costs)\n")
m('c07_no_sharedmem', 'C07', 'operators.py', "verbose=1, require='sharedmem')(", "verbose=1)(")

# ---------------------------------------------------------------- C10
m('c10_insert_or_ignore', 'C10', 'datastore.py',
  'sql_individuals_upsert = "INSERT INTO individuals (id, individual) VALUES(?,?) ON CONFLICT(id) DO UPDATE SET individual=excluded.individual;"',
  'sql_individuals_upsert = "INSERT OR IGNORE INTO individuals (id, individual) VALUES(?,?);"')
m('c10_rounded_vector', 'C10', 'individual.py', "'vector': list(self.vector),", "'vector': [round(v, 12) for v in self.vector],")
m('c10_no_final_sync_all_psoga', 'C10', 'algorithm_swarm.py',
  "        self.problem.logger.info(\"PSOGA: elapsed time: {} s\".format(t))\n        # sync changed individual informations\n"
  "        self.problem.data_store.sync_all()",
  "        self.problem.logger.info(\"PSOGA: elapsed time: {} s\".format(t))\n        # sync changed individual informations\n"
  "        pass")
m('c10_no_pk', 'C10', 'datastore.py', "individuals (id int PRIMARY KEY, individual json not null);\"\n",
  "individuals (id int, individual json not null);\"\n")
m('c10_from_dict_drops_custom', 'C10', 'individual.py', "        individual.custom = dictionary['custom']\n", "        individual.custom = {}\n")
m('c10_costs_signed_as_costs', 'C10', 'individual.py', "        individual.costs_signed = dictionary['costs_signed']\n",
  "        individual.costs_signed = dictionary['costs']\n")

# ---------------------------------------------------------------- C11
m('c11_journal_off', 'C11', 'datastore.py', "c.execute('PRAGMA journal_mode = ON')", "c.execute('PRAGMA journal_mode = OFF')")
m('c11_swallow_operational_error', 'C11', 'datastore.py',
  "                # try again\n                self.sync_individual(individual)", "                # try again\n                pass")
m('c11_early_sync_before_costs', 'C11', 'job.py',
  "                costs = self.problem.surrogate.evaluate(individual)\n                individual.costs = list(costs)  # a numpy array would break later list operations (append, vector + costs)\n",
  "                costs = self.problem.surrogate.evaluate(individual)\n                individual.state = individual.State.EVALUATED\n"
  "                self.problem.data_store.sync_individual(individual)\n                individual.costs = list(costs)\n")
m('c11_batched_commit', 'C11', 'datastore.py',
  "            conn = self.conn()\n            c = conn.cursor()\n\n            # data\n            try:\n"
  "                c.execute(self.sql_individuals_upsert, [individual.id, json.dumps(individual.to_dict())])\n"
  "                conn.commit()\n",
  "            if getattr(self, '_bconn', None) is None:\n                self._bconn = self.conn()\n                self._bn = 0\n"
  "            conn = self._bconn\n            c = conn.cursor()\n\n            # data\n            try:\n"
  "                c.execute(self.sql_individuals_upsert, [individual.id, json.dumps(individual.to_dict())])\n"
  "                self._bn += 1\n                if self._bn % 4 == 0:\n                    conn.commit()\n")

# ---------------------------------------------------------------- C09
m('c09_nsga2_extra_generation', 'C09', 'algorithm_NSGAII.py', "for it in range(self.options['max_population_number']-1):",
  "for it in range(self.options['max_population_number']):")
m('c09_truncate_n_minus_1', 'C09', 'algorithm_NSGAII.py',
  "individuals = nondominated_truncate(offsprings, self.options['max_population_size'])",
  "individuals = nondominated_truncate(offsprings, max(1, self.options['max_population_size'] - (1 if it % 3 == 2 else 0)))")
m('c09_half_parent_copies', 'C09', 'algorithm_NSGAII.py',
  "            for individual in individuals:\n                offsprings.append(individual.copy())",
  "            for individual in individuals[::2]:\n                offsprings.append(individual.copy())")
m('c09_accept_dominated', 'C09', 'operators.py', "        elif not dominated:\n            individuals.remove(random.choice(individuals))",
  "        elif not dominated or len(individuals) > 6:\n            individuals.remove(random.choice(individuals))")
m('c09_epsmoea_loop_short', 'C09', 'algorithm_genetic.py', "        for it in range(self.options['max_population_number']):\n            # generate and evaluate the next generation",
  "        for it in range(max(1, self.options['max_population_number'] - (self.options['max_population_number'] > 3))):\n            # generate and evaluate the next generation")
m('c09_generate_dedup_shrinks', 'C09', 'algorithm_genetic.py',
  "        return offsprings\n\n    def run(self):\n        pass",
  "        return offsprings if len(parents) < 7 else offsprings[:-1]\n\n    def run(self):\n        pass")

# ---------------------------------------------------------------- C08
# (removing the clip of PmMutator.pm_mutation alone is an equivalent mutant: Deb's bounded polynomial mutation stays inside
#  [lb, ub] by construction up to a few ulp, which the C08 tolerance absorbs - measured: 18 000 runs clean)
m('c08_pm_wrong_delta_no_clip', 'C08', 'operators.py', "        delta2 = (ub - x) / dx\n", "        delta2 = (ub - x) / dx * 1.5\n")
# (removing one clip of SBX alone is an equivalent mutant for the same reason: bounded SBX keeps c1 >= lb and c2 <= ub by
#  construction; the observable breakage is unbounded SBX = spread factor not limited by the bounds + no clip)
m('c08_sbx_unbounded', 'C08', 'operators.py',
  "                        c2 = 0.5 * (y1 + y2 + betaq * (y2 - y1))\n\n                        # check the boundaries\n"
  "                        c1 = self.clip(c1, lb, ub)\n                        c2 = self.clip(c2, lb, ub)\n",
  "                        c2 = 0.5 * (y1 + y2 + 1.5 * betaq * (y2 - y1))\n\n                        # check the boundaries\n"
  "                        c1 = self.clip(c1, lb, ub)\n")
m('c08_omopso_no_lower_branch', 'C08', 'algorithm_swarm.py',
  "                # adjust minimum position if necessary\n                if individual.vector[i] < parameter['bounds'][0]:\n"
  "                    individual.vector[i] = parameter['bounds'][0]\n                    individual.features['velocity'][i] *= -1\n\n"
  "    def update_global_best(self, swarm):\n        \"\"\" Manages the leader class in OMOPSO. \"\"\"\n\n        # the fitness of the particles are calculated by their crowding distance\n\n        # crowding_distance(swarm)",
  "    def update_global_best(self, swarm):\n        \"\"\" Manages the leader class in OMOPSO. \"\"\"\n\n        # the fitness of the particles are calculated by their crowding distance\n\n        # crowding_distance(swarm)")
m('c08_uniform_mutation_clip_swapped', 'C08', 'operators.py',
  "        x = x + (random.random() - 0.5) * self.perturbation\n        x = self.clip(x, lb, ub)",
  "        x = x + (random.random() - 0.5) * self.perturbation\n        x = self.clip(x, lb, ub + 1e-3 * (ub - lb))")
m('c08_gen_number_round_up', 'C08', 'utils.py', "number = round(number / precision) * precision",
  "number = (round(number / precision) + (1 if number > bounds[1] - 1e-4 * (bounds[1] - bounds[0]) else 0)) * precision")
m('c08_nonuniform_no_clip', 'C08', 'operators.py',
  "        if isinstance(x, complex):\n            print(x)\n        x = self.clip(x, lb, ub)", "        if isinstance(x, complex):\n            print(x)\n        x = max(x, lb)")

# ---------------------------------------------------------------- C18
m('c18_pbest_replace_only_if_dominating', 'C18', 'algorithm_swarm.py', "            if flag != 2:\n                particle.features['best_cost'] = particle.costs_signed",
  "            if flag == 1:\n                particle.features['best_cost'] = particle.costs_signed")
m('c18_pbest_wrong_direction', 'C18', 'algorithm_swarm.py', "            if flag != 2:\n                particle.features['best_cost'] = particle.costs_signed",
  "            if flag != 1:\n                particle.features['best_cost'] = particle.costs_signed")
m('c18_no_velocity_clamp_low', 'C18', 'algorithm_swarm.py', "        velocity = max(velocity, -delta_i)\n", "")
m('c18_smpso_no_damping_low', 'C18', 'algorithm_swarm.py',
  "                    individual.vector[i] = parameter['bounds'][0]\n                    individual.features['velocity'][i] *= 0.001\n",
  "                    individual.vector[i] = parameter['bounds'][0]\n")
m('c18_psoga_no_reversal', 'C18', 'algorithm_swarm.py',
  "                if individual.vector[i] > parameter['bounds'][1]:\n                    individual.vector[i] = parameter['bounds'][1]\n"
  "                    individual.features['velocity'][i] *= -1\n\n                if individual.vector[i] < parameter['bounds'][0]:",
  "                if individual.vector[i] > parameter['bounds'][1]:\n                    individual.vector[i] = parameter['bounds'][1]\n"
  "\n                if individual.vector[i] < parameter['bounds'][0]:")
m('c18_leaders_truncate_n_plus_1', 'C18', 'algorithm_swarm.py',
  "        self.leaders += swarm\n        self.leaders.truncate(self.options['max_population_size'], 'crowding_distance')\n        # self.problem.archive += swarm",
  "        self.leaders += swarm\n        self.leaders.truncate(self.options['max_population_size'] + 1, 'crowding_distance')\n        # self.problem.archive += swarm")
m('c18_omopso_leaders_all', 'C18', 'algorithm_swarm.py', "            if particle.features['front_number'] == 1:\n                pareto.append(particle)\n        for item in pareto:\n            self.leaders.append(item)",
  "            if particle.features['front_number'] == 1:\n                pareto.append(particle)\n        for item in pareto:\n            self.leaders._contents.append(item)")

# ---------------------------------------------------------------- C01
m('c01_flipped_inequality', 'C01', 'operators.py',
  "        for (p_costs, q_costs) in zip(p[:-1], q[:-1]):\n            if p_costs > q_costs:\n                dominate_q = True\n                if dominate_p:\n                    return 0\n            elif q_costs > p_costs:",
  "        for (p_costs, q_costs) in zip(p[:-1], q[:-1]):\n            if p_costs > q_costs:\n                dominate_q = True\n                if dominate_p:\n                    return 0\n            elif q_costs >= p_costs:")
m('c01_swapped_feasibility', 'C01', 'operators.py',
  "        # assert len(p) == len(q)\n\n        # first check constraint violation, the last item is the feasibility, which is a real number if its zero,\n        # it means that the solution is feasible\n        if p[-1] != q[-1]:\n            if p[-1] == 0:\n                return 1  # p dominates\n            elif q[-1] == 0:\n                return 2",
  "        # assert len(p) == len(q)\n\n        # first check constraint violation, the last item is the feasibility, which is a real number if its zero,\n        # it means that the solution is feasible\n        if p[-1] != q[-1]:\n            if p[-1] == 0:\n                return 2  # p dominates\n            elif q[-1] == 0:\n                return 1")
m('c01_eps_identical_returns_0', 'C01', 'operators.py',
  "            if dist1 < dist2:\n                return 1\n            else:\n                return 2\n        elif dominate_p:",
  "            if dist1 < dist2:\n                return 1\n            elif dist2 < dist1:\n                return 2\n            else:\n                return 0\n        elif dominate_p:")
m('c01_pareto_early_exit_wrong', 'C01', 'operators.py',
  "        if dominate_q == dominate_p:\n            return 0\n        elif dominate_p:\n            return 1\n        else:\n            return 2\n\n\nclass Selector",
  "        if dominate_q and dominate_p:\n            return 0\n        elif dominate_p:\n            return 1\n        else:\n            return 2\n\n\nclass Selector")

# ---------------------------------------------------------------- C02
m('c02_missing_decrement', 'C02', 'operators.py',
  "                    q.features['domination_counter'] -= 1\n                    if q.features['domination_counter'] == 0 and q.features['front_number'] is None:",
  "                    if len(individuals) % 5 != 4:\n                        q.features['domination_counter'] -= 1\n                    if q.features['domination_counter'] == 0 and q.features['front_number'] is None:")
m('c02_front_off_by_one_for_deep', 'C02', 'operators.py',
  "                        q.features['front_number'] = front_number\n                        pareto_front[front_number - 1].append(q)",
  "                        q.features['front_number'] = min(front_number, 4)\n                        pareto_front[front_number - 1].append(q)")
m('c02_counter_le_zero', 'C02', 'operators.py',
  "            # selects the pareto values\n            if p.features['domination_counter'] == 0:",
  "            # selects the pareto values\n            if p.features['domination_counter'] <= (1 if i == 0 and len(individuals) > 6 else 0):")

# ---------------------------------------------------------------- C03
m('c03_crowding_preference_reversed', 'C03', 'operators.py',
  "        if -p.features['crowding_distance'] < -q.features['crowding_distance']:\n            return -1\n        elif -p.features['crowding_distance'] > -q.features['crowding_distance']:\n            return 1",
  "        if p.features['crowding_distance'] < q.features['crowding_distance']:\n            return -1\n        elif p.features['crowding_distance'] > q.features['crowding_distance']:\n            return 1")
m('c03_tournament_prefers_worse_front', 'C03', 'operators.py',
  "            if candidates[0].features['front_number'] < candidates[1].features['front_number']:\n                return candidates[0]\n            elif candidates[1].features['front_number'] < candidates[0].features['front_number']:\n                return candidates[1]",
  "            if candidates[0].features['front_number'] < candidates[1].features['front_number']:\n                return candidates[1]\n            elif candidates[1].features['front_number'] < candidates[0].features['front_number']:\n                return candidates[0]")
m('c03_crowding_gap_one_sided', 'C03', 'operators.py',
  "            distance = front[i + 1].costs_signed[dim] - front[i - 1].costs_signed[dim]",
  "            distance = front[i + 1].costs_signed[dim] - front[i].costs_signed[dim]")
m('c03_truncate_no_dedup', 'C03', 'operators.py', "    population = list(set(population))\n    result = sorted(", "    population = list(population)\n    result = sorted(")
m('c03_tournament_dominated_wins', 'C03', 'operators.py',
  "            if flag == 1:\n                selected = candidates[0]\n            elif flag == 2:\n                selected = candidates[1]\n            else:\n                selected = random.choice(candidates)",
  "            if flag == 1:\n                selected = candidates[1]\n            elif flag == 2:\n                selected = candidates[0]\n            else:\n                selected = random.choice(candidates)")

# ---------------------------------------------------------------- C04
m('c04_no_index_correction', 'C04', 'archive.py', "                    del self._contents[index - number_of_deleted_solutions]", "                    del self._contents[index]")
m('c04_no_duplicate_check', 'C04', 'archive.py',
  "                    if individual.costs_signed == current_solution.costs_signed:\n                        is_contained = True\n                        break",
  "                    pass")
m('c04_truncate_ascending', 'C04', 'archive.py', "        if larger_preferred:\n            result.reverse()", "        if not larger_preferred:\n            result.reverse()")
m('c04_break_on_first_delete', 'C04', 'archive.py',
  "                    del self._contents[index - number_of_deleted_solutions]\n                    number_of_deleted_solutions += 1\n",
  "                    del self._contents[index - number_of_deleted_solutions]\n                    number_of_deleted_solutions += 1\n                    if number_of_deleted_solutions == 2:\n                        break\n")

# ---------------------------------------------------------------- C14
m('c14_one_sided_neighbours', 'C14', 'operators.py', "            for sign in [-1, 1]:\n                vector = individual.vector.copy()\n                vector[i] += sign * parameter['tol']",
  "            for sign in [1, 1]:\n                vector = individual.vector.copy()\n                vector[i] += sign * parameter['tol']")
m('c14_wrong_delta', 'C14', 'operators.py', "                gradient[i] = ((child.costs[0] - individual.costs[0]) / self.delta)",
  "                gradient[i] = ((child.costs[0] - individual.costs[0]) / (2 * self.delta))")
# (not resetting the work lists alone is an equivalent mutant once the length test is ">=": re-processing is idempotent and
#  makes no objective call; the observable defect is the pair "no reset" + ">" = the original F2)
m('c14_f2_regression', 'C14', 'operators.py',
  "            if len(individual.costs) >= self.n:\n                individual.costs[-1] = sum(sensitivity)\n"
  "                individual.costs_signed[-2] = sum(sensitivity)\n            else:\n"
  "                individual.costs.append(sum(sensitivity))\n                individual.costs_signed.insert(-1, sum(sensitivity))\n\n"
  "        self.individuals = []\n        self.to_evaluate = []\n",
  "            if len(individual.costs) > self.n:\n                individual.costs[-1] = sum(sensitivity)\n"
  "                individual.costs_signed[-2] = sum(sensitivity)\n            else:\n"
  "                individual.costs.append(sum(sensitivity))\n                individual.costs_signed.insert(-1, sum(sensitivity))\n")
m('c14_resubmission_grows', 'C14', 'operators.py', "            if len(individual.costs) >= self.n:\n                individual.costs[-1] = sum(sensitivity)",
  "            if len(individual.costs) > self.n:\n                individual.costs[-1] = sum(sensitivity)")
m('c14_sensitivity_uses_max', 'C14', 'operators.py', "            individual.features['sensitivity'] = sum(sensitivity)\n", "            individual.features['sensitivity'] = max(sensitivity)\n")
m('c14_gradient_children_minus', 'C14', 'operators.py', "            vector[i] += self.delta\n", "            vector[i] -= self.delta\n")

# ---------------------------------------------------------------- C17
m('c17_find_optimum_minmax_swapped', 'C17', 'results.py',
  "                min_l = [max(self.problem.individuals, key=lambda x: x.costs[index])]", "                min_l = [min(self.problem.individuals, key=lambda x: x.costs[index])]")
m('c17_unpaired_sort', 'C17', 'results.py',
  "            goal_values = self.sort_list(parameter_values, goal_values)\n            parameter_values.sort()",
  "            goal_values.sort()\n            parameter_values.sort()")
m('c17_last_population_first_tag', 'C17', 'problem.py', "            if individual.population_id > max_index:", "            if individual.population_id > max_index and max_index == -1:")
m('c17_gd_max_instead_of_mean', 'C17', 'quality_indicator.py', "    return np.sum(minimums) / len(computed)", "    return np.sum(minimums) / len(reference)")
m('c17_epsilon_no_inner_max', 'C17', 'quality_indicator.py', "            eps_k = max(np.subtract(comp_val, ref_val))", "            eps_k = min(np.subtract(comp_val, ref_val))")

# ---------------------------------------------------------------- C19
m('c19_double_count', 'C19', 'surrogate.py', "    def evaluate(self, individual):\n        self.eval_counter += 1\n        return self.problem.evaluate(individual)",
  "    def evaluate(self, individual):\n        self.eval_counter += 1\n        self.eval_counter += (self.eval_counter % 7 == 0)\n        return self.problem.evaluate(individual)")
m('c19_train_off_by_one', 'C19', 'surrogate.py', "            if self.eval_counter % self.train_step == 0:", "            if self.eval_counter % self.train_step == 1 % self.train_step:")
m('c19_predict_while_untrained', 'C19', 'surrogate.py', "        if self.trained and \"predict\" in dir(self.problem):", "        if (self.trained or self.eval_counter > 3) and \"predict\" in dir(self.problem):")
m('c19_data_added_twice_on_decline', 'C19', 'surrogate.py',
  "        if values is None:\n            # evaluate model\n            values = self.evaluate_individual(individual)",
  "        if values is None:\n            # evaluate model\n            values = self.evaluate_individual(individual)\n            if self.trained and self.eval_counter % 4 == 0:\n                self.add_data(individual.vector, values)")
m('c19_prediction_counts_as_eval', 'C19', 'surrogate.py', "                self.problem.surrogate.predict_counter += 1", "                self.problem.surrogate.eval_counter += 1")

# ---------------------------------------------------------------- C20
m('c20_first_coordinate_only', 'C20', 'individual.py', "            diff = d if i == 0 else max(diff, d)", "            diff = d if i == 0 else diff")
m('c20_sum_instead_of_max_signed', 'C20', 'individual.py', "            d = abs(self.vector[i] - other.vector[i])", "            d = self.vector[i] - other.vector[i]")
# (hashing fewer coordinates only adds collisions: identical vectors still hash identically - equivalent for C20)
m('c20_hash_includes_id', 'C20', 'individual.py', "        return hash(tuple(self.vector))", "        return hash((self.id,) + tuple(self.vector))")

# ---------------------------------------------------------------- C07, statement-level races (need a pre-emption between two lines)
m('c07_scratch_between_lines', 'C07', 'job.py',
  "                costs = self.problem.surrogate.evaluate(individual)\n                individual.costs = list(costs)  # a numpy array would break later list operations (append, vector + costs)\n",
  "                self._scratch = self.problem.surrogate.evaluate(individual)\n                individual.costs = list(self._scratch)\n")
m('c07_shared_dict_buffer', 'C07', 'datastore.py',
  "                c.execute(self.sql_individuals_upsert, [individual.id, json.dumps(individual.to_dict())])\n                conn.commit()\n            except sqlite3.OperationalError as e:",
  "                self._row = [individual.id, json.dumps(individual.to_dict())]\n                c.execute(self.sql_individuals_upsert, self._row)\n                conn.commit()\n            except sqlite3.OperationalError as e:")

# ---------------------------------------------------------------- regressions of the repaired defects (a fixed entry of
# known_findings.json suppresses nothing: the violation must be reported again if the defect ever returns)
m('f1_regression_eq_last_coordinate_only', 'C20', 'individual.py',
  "            d = abs(self.vector[i] - other.vector[i])\n            diff = d if i == 0 else max(diff, d)",
  "            diff = abs(self.vector[i] - other.vector[i])")
m('f3_regression_np_infty', 'C17', 'quality_indicator.py', "        eps_j = np.inf\n", "        eps_j = np.infty\n")
m('f4_regression_uniform_last_level', 'C08', 'operators.py',
  "                if i == self.number - 1:\n                    # lb + (n - 1) * ((ub - lb) / (n - 1)) is not ub in floating point when |lb| >> |ub|\n"
  "                    vectors[-1].append(parameter['bounds'][1])\n                else:\n"
  "                    vectors[-1].append(parameter['bounds'][0] + i * delta)\n",
  "                vectors[-1].append(parameter['bounds'][0] + i * delta)\n")
m('f5_regression_psoga_shared_features', 'C07', 'algorithm_swarm.py',
  "            offspring1.features = copy(first_selected.features)\n            offspring2.features = copy(second_selected.features)\n",
  "            offspring1.features = first_selected.features\n            offspring2.features = second_selected.features\n")
m('f6_regression_costs_not_a_list_c14', 'C14', 'job.py',
  "                individual.costs = list(costs)  # a numpy array would break later list operations (append, vector + costs)\n",
  "                individual.costs = costs\n")
m('f6_regression_costs_not_a_list_c17', 'C17', 'job.py',
  "                individual.costs = list(costs)  # a numpy array would break later list operations (append, vector + costs)\n",
  "                individual.costs = costs\n")
m('f7_regression_state_word_after_readback_c05', 'C05', 'individual.py',
  "        individual.state = Individual.from_string(dictionary['state'])\n", "        individual.state = dictionary['state']\n")
m('f7_regression_state_word_after_readback_c07', 'C07', 'individual.py',
  "        individual.state = Individual.from_string(dictionary['state'])\n", "        individual.state = dictionary['state']\n")
m('f8_regression_ids_read_back_given_out_again', 'C10', 'individual.py',
  "        Individual.counter = max(Individual.counter, individual.id + 1)\n", "")
