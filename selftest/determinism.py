#!/venv/bin/python
"""Determinism self-test (DESIGN.md §9): for a sample of run seeds of every property, the event-log digests must agree
between (a) two executions in one process, (b) a fresh interpreter under another PYTHONHASHSEED, (c) a 16-worker fork
pool and (d) a 3-worker fork pool.   selftest/determinism.py [--seeds N] [--props C05,C07] ;  exit 0 = all equal,
2 = a digest differs (harness problem, never a VIOLATION).  Results: evidence/determinism.json"""
import argparse
import concurrent.futures as cf
import json
import multiprocessing
import os
import sys
import time
import warnings

warnings.filterwarnings('ignore')
HERE = os.path.dirname(os.path.abspath(__file__))
VERIF = os.path.dirname(HERE)
sys.path.insert(0, VERIF)
from artapsim import driver  # noqa: E402
from artapsim.decisions import derive_seed  # noqa: E402


def pool_digests(pid, items, procs):
    ctx = multiprocessing.get_context('fork')
    n = max(1, len(items) // (procs * 2))
    chunks = [items[i:i + n] for i in range(0, len(items), n)]
    out = {}
    with cf.ProcessPoolExecutor(max_workers=procs, mp_context=ctx, initializer=driver._init_worker) as pool:
        for res in pool.map(driver._work, [pid] * len(chunks), chunks):
            for r in res:
                out[r['label']] = (r['digest'], r['outcome'])
    return out


def main():
    ap = argparse.ArgumentParser()
    ap.add_argument('--seeds', type=int, default=200)
    ap.add_argument('--props', default=None)
    ap.add_argument('--verif-seed', type=int, default=12345)
    a = ap.parse_args()
    props = a.props.split(',') if a.props else driver.ALL
    report = {}
    rc = 0
    for pid in props:
        t = time.time()
        n = a.seeds if pid != 'C11' else max(8, a.seeds // 10)
        items = [('s%d' % i, derive_seed(a.verif_seed, pid, i), {}) for i in range(n)]
        if pid == 'C11':
            # un-armed traces and event-level crash points (syscall-level points need the LD_PRELOAD shim of ./check)
            items = [(l, s, {"crash/'kind'": i % 2, "crash/'k'": 1 + 3 * i}) for i, (l, s, _) in enumerate(items)]
        p16 = pool_digests(pid, items, 16)
        p16b = pool_digests(pid, items, 16)
        p3 = pool_digests(pid, items, 3)
        fresh = {}
        for j in range(0, n, 50):
            part = items[j:j + 50]
            ds = driver.fresh_digests(pid, json.dumps([[l, s, o] for l, s, o in part]), hashseed=str(1000 + j))
            for (l, _, _), d in zip(part, ds):
                fresh[l] = d
        bad = [l for l, _, _ in items if not (p16[l][0] == p16b[l][0] == p3[l][0] == fresh[l])]
        errs = [l for l in p16 if p16[l][1] == 'harness_error']
        report[pid] = {'seeds': n, 'executions_per_seed': 4, 'mismatches': bad[:10], 'harness_errors': errs[:5],
                       'seconds': round(time.time() - t, 1)}
        print('%s: %d seeds x 4 executions (16-proc pool twice, 3-proc pool, fresh interpreter/other PYTHONHASHSEED): %s  %.1fs'
              % (pid, n, 'all digests equal' if not bad and not errs else 'MISMATCH %r errors %r' % (bad[:5], errs[:3]),
                 time.time() - t))
        sys.stdout.flush()
        if bad or errs:
            rc = 2
    os.makedirs(os.path.join(VERIF, 'evidence'), exist_ok=True)
    with open(os.path.join(VERIF, 'evidence', 'determinism.json'), 'w') as f:
        json.dump({'verif_seed': a.verif_seed, 'report': report, 'ok': rc == 0}, f, indent=1)
    return rc


if __name__ == '__main__':
    sys.exit(main())
