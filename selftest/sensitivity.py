#!/venv/bin/python
"""Sensitivity self-test: every mutant of selftest/mutants.py must make its property's quick check exit 1,
and the unchanged copy must exit 0.   selftest/sensitivity.py [--only name-substring] [--budget S] [--props C05,C06]
Results: evidence/sensitivity.json"""
import argparse, json, os, shutil, subprocess, sys, time
HERE = os.path.dirname(os.path.abspath(__file__)); VERIF = os.path.dirname(HERE)
sys.path.insert(0, HERE)
import mutants

def main():
    ap = argparse.ArgumentParser(); ap.add_argument('--only', default=None); ap.add_argument('--budget', default='25')
    ap.add_argument('--props', default=None); ap.add_argument('--keep', action='store_true'); ap.add_argument('--no-write', action='store_true')
    a = ap.parse_args()
    repo = os.environ.get('VERIF_REPO_SRC', '/repo')
    base = os.path.join(os.environ.get('VERIF_SCRATCH', '/dev/shm'), 'artap-mutants-%d' % os.getpid())
    results = []; rc = 0
    sel = [m for m in mutants.M if (a.only is None or a.only in m['name']) and (a.props is None or m['property'] in a.props.split(','))]
    try:
        for m in sel:
            d = os.path.join(base, m['name']); shutil.rmtree(d, ignore_errors=True); os.makedirs(d)
            shutil.copytree(os.path.join(repo, 'artap'), os.path.join(d, 'artap'), ignore=shutil.ignore_patterns('__pycache__', 'tests'))
            p = os.path.join(d, 'artap', m['file']); s = open(p).read()
            if s.count(m['old']) < 1:
                results.append(dict(m, verdict='STALE', detail='pattern not found')); print('%-34s %s STALE (pattern not found)' % (m['name'], m['property'])); rc = 1; continue
            open(p, 'w').write(s.replace(m['old'], m['new'], m.get('count', 1)))
            env = dict(os.environ, VERIF_REPO=d, VERIF_EVIDENCE_DIR=os.path.join(d, 'evidence'), VERIF_REPLAY_DIR=os.path.join(d, 'replays'))
            t = time.time()
            pr = subprocess.run([os.path.join(VERIF, 'check'), m['property'], '--tier', 'quick', '--budget', a.budget], capture_output=True, text=True, env=env)
            dt = time.time() - t
            vl = [l for l in pr.stdout.splitlines() if l.startswith('VIOLATION')]
            det = [l.strip() for l in pr.stdout.splitlines() if l.strip().startswith('clause=')]
            verdict = 'caught' if (pr.returncode == 1 and vl) else ('MISSED' if pr.returncode == 0 else 'ERROR rc=%d' % pr.returncode)
            if verdict != 'caught': rc = 1
            results.append({'name': m['name'], 'property': m['property'], 'file': m['file'], 'verdict': verdict, 'seconds': round(dt, 1),
                            'detail': (det[0] if det else pr.stdout[-300:] + pr.stderr[-300:])[:400]})
            print('%-34s %s %-8s %5.1fs %s' % (m['name'], m['property'], verdict, dt, (det[0] if det else pr.stdout[-200:].replace('\n', ' | '))[:150]))
            sys.stdout.flush()
            if not a.keep: shutil.rmtree(d, ignore_errors=True)
    finally:
        if not a.keep: shutil.rmtree(base, ignore_errors=True)
    if not a.no_write and a.only is None and a.props is None:
        os.makedirs(os.path.join(VERIF, 'evidence'), exist_ok=True)
        json.dump({'budget_s': a.budget, 'mutants': results, 'caught': sum(r['verdict'] == 'caught' for r in results), 'total': len(results)},
                  open(os.path.join(VERIF, 'evidence', 'sensitivity.json'), 'w'), indent=1)
    print('caught %d / %d' % (sum(r['verdict'] == 'caught' for r in results), len(results)))
    return rc
if __name__ == '__main__':
    sys.exit(main())
